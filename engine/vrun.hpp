// vrun.hpp -- common runner for all bounded-exhaustive harnesses.
//
// A harness defines
//     static const char* kProperty = "Cxx";
//     uint64_t vf_ncases(const std::string& tier);
//     void     vf_run(uint64_t idx, const std::string& tier, vf::Ctx& c);
//     std::string vf_describe(const std::string& tier);   // JSON object: alphabets, bounds, tolerances
// and ends with  VF_MAIN()
//
// A "case" is the unit of work, addressed by one integer: a block of a
// Cartesian lattice, one configuration explored to fixpoint by BFS, one
// deviation placement, ...  The runner forks `jobs` workers that pull case
// numbers from a shared counter, publishes the case each worker is in, reaps
// workers that crash (assert / sanitizer / signal) or exceed the per-case
// deadline, turns that case into a violation (outcome crash|hang), restarts a
// worker and carries on.  A global deadline stops handing out cases and
// marks the run non-exhaustive.  All counters live in shared memory so a
// crash loses nothing but the case that crashed.
#pragma once
#include <sys/mman.h>
#include <sys/wait.h>
#include <sys/stat.h>
#include <unistd.h>
#include <signal.h>
#include <time.h>
#include <cstdint>
#include <cstdio>
#include <cstdlib>
#include <cstring>
#include <cmath>
#include <string>
#include <vector>
#include <map>
#include <set>
#include <algorithm>
#include <sstream>
#include <fstream>
#include <memory>
#include <array>
#include <list>
#include <type_traits>

namespace vf {

inline double now_s() {
  timespec ts; clock_gettime(CLOCK_MONOTONIC, &ts);
  return ts.tv_sec + 1e-9 * ts.tv_nsec;
}

// ---------------------------------------------------------------- JSON ----
inline std::string jesc(const std::string& s) {
  std::string o; o.reserve(s.size() + 2);
  for (unsigned char ch : s) {
    switch (ch) {
      case '"': o += "\\\""; break;
      case '\\': o += "\\\\"; break;
      case '\n': o += "\\n"; break;
      case '\t': o += "\\t"; break;
      case '\r': o += "\\r"; break;
      default:
        if (ch < 0x20) { char b[8]; snprintf(b, sizeof b, "\\u%04x", ch); o += b; }
        else o += (char)ch;
    }
  }
  return o;
}
inline std::string jnum(long double v) {
  if (std::isnan((double)v)) return "\"nan\"";
  if (std::isinf((double)v)) return v > 0 ? "\"inf\"" : "\"-inf\"";
  char b[64]; snprintf(b, sizeof b, "%.17Lg", v); return b;
}
struct JO {   // JSON object builder
  std::string s = "{"; bool first = true;
  void key(const char* k) { if (!first) s += ","; first = false; s += "\""; s += k; s += "\":"; }
  JO& num(const char* k, long double v) { key(k); s += jnum(v); return *this; }
  JO& i(const char* k, long long v) { key(k); s += std::to_string(v); return *this; }
  JO& u(const char* k, unsigned long long v) { key(k); s += std::to_string(v); return *this; }
  JO& b(const char* k, bool v) { key(k); s += v ? "true" : "false"; return *this; }
  JO& str(const char* k, const std::string& v) { key(k); s += "\"" + jesc(v) + "\""; return *this; }
  JO& raw(const char* k, const std::string& json) { key(k); s += json; return *this; }
  template <class V> JO& vec(const char* k, const V& v) {
    key(k); s += "["; bool f = true;
    for (auto x : v) { if (!f) s += ","; f = false; s += jnum((long double)x); } s += "]"; return *this;
  }
  template <class V> JO& strs(const char* k, const V& v) {
    key(k); s += "["; bool f = true;
    for (auto& x : v) { if (!f) s += ","; f = false; s += "\"" + jesc(x) + "\""; } s += "]"; return *this;
  }
  std::string done() const { return s + "}"; }
};
template <class V> inline std::string jarr(const V& v) {
  std::string s = "["; bool f = true;
  for (auto x : v) { if (!f) s += ","; f = false; s += jnum((long double)x); } return s + "]";
}

// -------------------------------------------------------------- hashing ---
inline uint64_t mix64(uint64_t h, uint64_t v) {
  h ^= v + 0x9e3779b97f4a7c15ULL + (h << 6) + (h >> 2);
  h *= 0xff51afd7ed558ccdULL; h ^= h >> 33; return h;
}

// ------------------------------------------------------- mixed radix ------
struct Radix {
  std::vector<uint64_t> dims;
  uint64_t total() const { uint64_t t = 1; for (auto d : dims) t *= d; return t; }
  std::vector<uint64_t> decode(uint64_t idx) const {
    std::vector<uint64_t> r(dims.size());
    for (size_t k = 0; k < dims.size(); ++k) { r[k] = idx % dims[k]; idx /= dims[k]; }
    return r;
  }
};

// ------------------------------------------------------- shared state -----
enum { kMaxJobs = 64, kMaxNotes = 24 };
struct Counters {
  uint64_t cases_done, evaluations, nontrivial, trivial, states, transitions, traces, violations, obs_digest;
};
struct NoteSlot { char name[40]; double value; int used; };
struct WorkerSlot {
  volatile uint64_t current;      // case being run (valid when busy)
  volatile double   started;      // monotonic time the case started
  volatile int      busy;
  Counters c;
  NoteSlot notes[kMaxNotes];      // max-merged metrics
};
struct Shared {
  volatile uint64_t next;         // next case to hand out
  volatile int      stop;         // global deadline reached
  WorkerSlot w[kMaxJobs];
};

// ------------------------------------------------------------- context ----
struct Ctx {
  uint64_t case_idx = 0;
  bool verbose = false;           // single-case replay mode
  bool scratch = false;           // determinism re-run: do not record
  Counters c{};                   // per-case counters (merged by the runner)
  uint64_t obs_hash = 0;
  std::vector<std::string> viol;  // JSON records
  std::vector<std::string> samples;
  std::map<std::string, double> notes;
  size_t max_viol_detail = 20000;

  void eval(uint64_t n = 1) { c.evaluations += n; }
  void nontrivial(uint64_t n = 1) { c.nontrivial += n; }
  void trivial(uint64_t n = 1) { c.trivial += n; }
  void states(uint64_t n = 1) { c.states += n; }
  void transitions(uint64_t n = 1) { c.transitions += n; }
  void traces(uint64_t n = 1) { c.traces += n; }
  void obs(uint64_t v) { obs_hash = mix64(obs_hash, v); }
  void obs(double v) { uint64_t u; if (v != v) u = 0x7ff8000000000000ULL; else memcpy(&u, &v, 8); obs(u); }
  void obsf(float v) { obs((double)v); }
  void note_max(const std::string& k, double v) {
    if (v != v) v = HUGE_VAL;
    auto it = notes.find(k); if (it == notes.end() || v > it->second) notes[k] = v;
  }
  // site: call site / clause that failed (stable string, used by KNOWN_FINDINGS)
  // params: JSON object with the numeric/string coordinates of the failing case
  // detail: JSON object, observed vs expected
  void violation(const std::string& site, const std::string& params, const std::string& detail) {
    c.violations++;
    if (viol.size() < max_viol_detail) {
      JO o; o.u("case", case_idx).str("site", site).raw("params", params).raw("detail", detail).str("outcome", "wrong");
      viol.push_back(o.done());
    }
    if (verbose) printf("  violation site=%s params=%s detail=%s\n", site.c_str(), params.c_str(), detail.c_str());
  }
  void sample(const std::string& json) { if (samples.size() < 4) samples.push_back(json); }
  bool want_sample() const { return samples.size() < 4; }
};

}  // namespace vf

// harness-provided
extern const char* kProperty;
uint64_t vf_ncases(const std::string& tier);
void vf_run(uint64_t idx, const std::string& tier, vf::Ctx& c);
std::string vf_describe(const std::string& tier);
// optional: JSON object naming the coordinates of a case (used for crash / hang records, which carry no other detail)
__attribute__((weak)) std::string vf_case_params(uint64_t idx, const std::string& tier);

namespace vf {

inline std::string case_params(uint64_t idx, const std::string& tier) {
  if (vf_case_params) return vf_case_params(idx, tier);
  return JO().u("case", idx).done();
}

inline void add(Counters& a, const Counters& b) {
  a.cases_done += b.cases_done; a.evaluations += b.evaluations; a.nontrivial += b.nontrivial;
  a.trivial += b.trivial; a.states += b.states; a.transitions += b.transitions; a.traces += b.traces;
  a.violations += b.violations; a.obs_digest += b.obs_digest;
}

inline void worker_loop(Shared* sh, int slot, uint64_t ncases, const std::string& tier,
                        const std::string& outdir, uint64_t det_cases) {
  WorkerSlot& w = sh->w[slot];
  std::string vpath = outdir + "/viol." + std::to_string(slot) + "." + std::to_string((int)getpid()) + ".jsonl";
  std::string spath = outdir + "/samples." + std::to_string(slot) + "." + std::to_string((int)getpid()) + ".jsonl";
  FILE* vf = nullptr; FILE* sf = nullptr;
  size_t nsamples = 0, nviol = 0;
  for (;;) {
    if (sh->stop) break;
    uint64_t idx = __atomic_fetch_add(&sh->next, 1, __ATOMIC_SEQ_CST);
    if (idx >= ncases) break;
    w.current = idx; w.started = now_s(); __sync_synchronize(); w.busy = 1;
    Ctx c; c.case_idx = idx;
    vf_run(idx, tier, c);
    if (idx < det_cases || c.c.violations) {   // determinism: same case twice => same observations
      Ctx d; d.case_idx = idx; d.scratch = true;
      vf_run(idx, tier, d);
      if (d.obs_hash != c.obs_hash || d.c.evaluations != c.c.evaluations || d.c.violations != c.c.violations) {
        JO p; p.u("case", idx);
        JO de; de.u("hash1", c.obs_hash).u("hash2", d.obs_hash).u("viol1", c.c.violations).u("viol2", d.c.violations);
        c.violation("harness.nondeterminism", p.done(), de.done());
      }
    }
    c.notes["max_case_wall_s"] = now_s() - w.started;   // slowest case (including a determinism re-run): margin to --case-timeout
    for (auto& v : c.viol) {
      if (nviol++ < 400000) { if (!vf) vf = fopen(vpath.c_str(), "w"); fprintf(vf, "%s\n", v.c_str()); fflush(vf); }
    }
    for (auto& s : c.samples) {
      if (nsamples++ < 3) { if (!sf) sf = fopen(spath.c_str(), "w"); fprintf(sf, "%s\n", s.c_str()); fflush(sf); }
    }
    c.c.cases_done = 1; c.c.obs_digest = c.obs_hash;
    add(w.c, c.c);
    for (auto& kv : c.notes) {
      int k = 0;
      for (; k < kMaxNotes; ++k) {
        if (!w.notes[k].used) { strncpy(w.notes[k].name, kv.first.c_str(), 39); w.notes[k].value = kv.second; w.notes[k].used = 1; break; }
        if (kv.first == w.notes[k].name) { if (kv.second > w.notes[k].value) w.notes[k].value = kv.second; break; }
      }
    }
    __sync_synchronize(); w.busy = 0;
  }
  if (vf) fclose(vf);
  if (sf) fclose(sf);
  fflush(stdout);
  _exit(0);
}

inline std::string arg(int argc, char** argv, const char* name, const char* def) {
  for (int i = 1; i + 1 < argc; ++i) if (!strcmp(argv[i], name)) return argv[i + 1];
  return def;
}
inline bool flag(int argc, char** argv, const char* name) {
  for (int i = 1; i < argc; ++i) if (!strcmp(argv[i], name)) return true;
  return false;
}

inline int vf_main(int argc, char** argv) {
  std::string tier = arg(argc, argv, "--tier", "quick");
  std::string outdir = arg(argc, argv, "--out", "");
  int jobs = atoi(arg(argc, argv, "--jobs", "16").c_str());
  double case_timeout = atof(arg(argc, argv, "--case-timeout", "20").c_str());
  double deadline = atof(arg(argc, argv, "--deadline", "3600").c_str());
  uint64_t det_cases = strtoull(arg(argc, argv, "--det-cases", "8").c_str(), nullptr, 10);
  if (jobs < 1) jobs = 1;
  if (jobs > kMaxJobs) jobs = kMaxJobs;
  uint64_t ncases = vf_ncases(tier);

  if (flag(argc, argv, "--ncases")) { printf("%llu\n", (unsigned long long)ncases); return 0; }
  std::string one = arg(argc, argv, "--case", "");
  if (!one.empty()) {   // replay of a single case, no explorer, no fork
    uint64_t idx = strtoull(one.c_str(), nullptr, 10);
    if (idx >= ncases) { fprintf(stderr, "case %llu out of range (%llu)\n", (unsigned long long)idx, (unsigned long long)ncases); return 2; }
    Ctx c; c.case_idx = idx; c.verbose = true; c.max_viol_detail = 1000;
    vf_run(idx, tier, c);
    printf("case %llu tier %s: evaluations=%llu violations=%llu obs=%016llx\n", (unsigned long long)idx, tier.c_str(),
           (unsigned long long)c.c.evaluations, (unsigned long long)c.c.violations, (unsigned long long)c.obs_hash);
    return c.c.violations ? 1 : 0;
  }
  if (outdir.empty()) { fprintf(stderr, "usage: %s --tier quick|thorough --out DIR [--jobs N] | --case N\n", argv[0]); return 2; }
  mkdir(outdir.c_str(), 0777);

  Shared* sh = (Shared*)mmap(nullptr, sizeof(Shared), PROT_READ | PROT_WRITE, MAP_SHARED | MAP_ANONYMOUS, -1, 0);
  memset((void*)sh, 0, sizeof(Shared));
  double t0 = now_s();
  std::vector<pid_t> pid(jobs, 0);
  std::vector<std::string> extra_viol;   // crash / hang records
  uint64_t crash_count = 0;
  auto spawn = [&](int k) {
    fflush(stdout); fflush(stderr);
    pid_t p = fork();
    if (p == 0) { worker_loop(sh, k, ncases, tier, outdir, det_cases); _exit(0); }
    pid[k] = p;
  };
  for (int k = 0; k < jobs; ++k) spawn(k);
  int alive = jobs;
  bool deadline_hit = false;
  while (alive > 0) {
    bool progressed = false;
    for (int k = 0; k < jobs; ++k) {
      if (!pid[k]) continue;
      int st = 0; pid_t r = waitpid(pid[k], &st, WNOHANG);
      if (r == pid[k]) {
        progressed = true;
        bool clean = WIFEXITED(st) && WEXITSTATUS(st) == 0 && !sh->w[k].busy;
        if (clean) { pid[k] = 0; alive--; continue; }
        // crashed inside a case
        uint64_t idx = sh->w[k].current;
        std::string pp = case_params(idx, tier);
        JO d; if (WIFSIGNALED(st)) d.i("signal", WTERMSIG(st)); else d.i("exit_status", WIFEXITED(st) ? WEXITSTATUS(st) : -1);
        JO o; o.u("case", idx).str("site", "runner.crash").raw("params", pp).raw("detail", d.done()).str("outcome", "crash");
        extra_viol.push_back(o.done()); crash_count++;
        sh->w[k].busy = 0; sh->w[k].c.cases_done++; sh->w[k].c.violations++;
        if (crash_count < 200) spawn(k); else { pid[k] = 0; alive--; }
      } else if (sh->w[k].busy && now_s() - sh->w[k].started > case_timeout) {
        uint64_t idx = sh->w[k].current;
        kill(pid[k], SIGKILL); waitpid(pid[k], &st, 0);
        progressed = true;
        std::string pp = case_params(idx, tier);
        JO d; d.num("timeout_s", case_timeout);
        JO o; o.u("case", idx).str("site", "runner.hang").raw("params", pp).raw("detail", d.done()).str("outcome", "hang");
        extra_viol.push_back(o.done()); crash_count++;
        sh->w[k].busy = 0; sh->w[k].c.cases_done++; sh->w[k].c.violations++;
        if (crash_count < 200) spawn(k); else { pid[k] = 0; alive--; }
      }
    }
    if (!deadline_hit && now_s() - t0 > deadline) { deadline_hit = true; sh->stop = 1; }
    if (!progressed) usleep(2000);
  }
  Counters tot{};
  std::map<std::string, double> notes;
  for (int k = 0; k < jobs; ++k) {
    add(tot, sh->w[k].c);
    for (int n = 0; n < kMaxNotes; ++n) if (sh->w[k].notes[n].used) {
      auto it = notes.find(sh->w[k].notes[n].name);
      if (it == notes.end() || sh->w[k].notes[n].value > it->second) notes[sh->w[k].notes[n].name] = sh->w[k].notes[n].value;
    }
  }
  bool exhaustive = tot.cases_done >= ncases && !deadline_hit;
  JO r;
  r.str("property", kProperty).str("tier", tier).u("ncases", ncases).u("cases_done", tot.cases_done)
   .u("evaluations", tot.evaluations).u("nontrivial", tot.nontrivial).u("trivial", tot.trivial)
   .u("states", tot.states).u("transitions", tot.transitions).u("traces", tot.traces)
   .u("violations", tot.violations).u("crashes", crash_count).b("exhaustive", exhaustive)
   .b("deadline_hit", deadline_hit).num("wall_s", now_s() - t0).i("jobs", jobs);
  { char b[32]; snprintf(b, sizeof b, "%016llx", (unsigned long long)tot.obs_digest); r.str("obs_digest", b); }
  { JO n; for (auto& kv : notes) n.num(kv.first.c_str(), kv.second); r.raw("notes", n.done()); }
  r.raw("describe", vf_describe(tier));
  { std::string a = "["; for (size_t i = 0; i < extra_viol.size(); ++i) { if (i) a += ","; a += extra_viol[i]; } a += "]"; r.raw("runner_violations", a); }
  std::string path = outdir + "/result.json";
  FILE* f = fopen(path.c_str(), "w"); fprintf(f, "%s\n", r.done().c_str()); fclose(f);
  printf("[%s %s] cases=%llu/%llu evals=%llu nontrivial=%llu states=%llu transitions=%llu violations=%llu wall=%.1fs%s\n",
         kProperty, tier.c_str(), (unsigned long long)tot.cases_done, (unsigned long long)ncases,
         (unsigned long long)tot.evaluations, (unsigned long long)tot.nontrivial, (unsigned long long)tot.states,
         (unsigned long long)tot.transitions, (unsigned long long)tot.violations, now_s() - t0,
         exhaustive ? "" : " (NOT exhaustive)");
  return 0;
}

}  // namespace vf

#define VF_MAIN() int main(int argc, char** argv) { return vf::vf_main(argc, argv); }
