// regref.hpp -- deterministic point-set catalogue and reference rigid registration (long double) for C04 / C05 / C06.
#pragma once
#include <Eigen/Dense>
#include <vector>
#include <array>
#include <string>
#include <cmath>

namespace regref {

using LD = long double;
using V3 = Eigen::Matrix<LD, 3, 1>;
using M3 = Eigen::Matrix<LD, 3, 3>;

// low-discrepancy deterministic "noise" in [-1,1]^3 (Halton bases 2,3,5), no randomness anywhere
inline double halton(unsigned i, unsigned base) { double f = 1, r = 0; while (i) { f /= base; r += f * (i % base); i /= base; } return r; }
inline std::array<double, 3> pattern(unsigned i) { return {2 * halton(i + 1, 2) - 1, 2 * halton(i + 1, 3) - 1, 2 * halton(i + 1, 5) - 1}; }

struct Set { std::string name; std::vector<std::array<double, 3>> pts; bool coplanar = false; };

inline std::vector<Set> catalogue(int dim) {
  std::vector<Set> v;
  auto lattice = [&](const std::string& n, int w, int h, int d, double step) { Set s; s.name = n; for (int i = 0; i < w; ++i) for (int j = 0; j < h; ++j) for (int k = 0; k < (dim == 3 ? d : 1); ++k) s.pts.push_back({i * step - 1.3, j * step + 0.4, dim == 3 ? k * step - 0.2 : 0.0}); s.coplanar = (dim == 3 && d == 1); return s; };
  { Set s; s.name = "3 points"; s.pts = {{0, 0, 0}, {2, 0.1, dim == 3 ? 0.3 : 0.0}, {0.5, 1.7, dim == 3 ? -0.4 : 0.0}}; s.coplanar = dim == 3; v.push_back(s); }
  v.push_back(lattice("2x2", 2, 2, dim == 3 ? 2 : 1, 1.0));
  v.push_back(lattice("lattice 5x4", 5, 4, dim == 3 ? 3 : 1, 0.5));
  v.push_back(lattice("lattice 25x20", 25, 20, 1, 0.2));          // 500 points; exactly coplanar (z = const) in 3D
  { Set s = lattice("L-shape", 9, 9, 1, 0.3); std::vector<std::array<double, 3>> keep; for (auto& p : s.pts) if (!(p[0] > 0 && p[1] > 1.5)) keep.push_back(p); s.pts = keep; s.name = "L-shape"; v.push_back(s); }
  if (dim == 3) {
    { Set s; s.name = "coplanar tilted (exactly)"; for (int i = 0; i < 7; ++i) for (int j = 0; j < 6; ++j) { double a = i * 0.5 - 1, b = j * 0.5 - 2; s.pts.push_back({a, b, 0.5 * a - 0.25 * b + 1}); } s.coplanar = true; v.push_back(s); }
    { Set s; s.name = "nearly coplanar (z=+-1e-6 pattern)"; for (int i = 0; i < 7; ++i) for (int j = 0; j < 6; ++j) s.pts.push_back({i * 0.5 - 1, j * 0.5 - 2, ((i * 3 + j * 5) % 2 ? 1e-6 : -1e-6) * (1 + (i % 3))}); v.push_back(s); }
    { Set s; s.name = "box surface 6x6x6"; for (int i = 0; i < 6; ++i) for (int j = 0; j < 6; ++j) for (int k = 0; k < 6; ++k) if (i == 0 || j == 0 || k == 0 || i == 5 || j == 5 || k == 5) s.pts.push_back({i * 0.4 - 1, j * 0.4, k * 0.4 + 2}); v.push_back(s); }
  }
  { Set s; s.name = "two clusters 1e-3 wide, 100 apart"; for (int i = 0; i < 20; ++i) { auto a = pattern(i), b = pattern(i + 50); s.pts.push_back({5e-4 * a[0], 5e-4 * a[1], dim == 3 ? 5e-4 * a[2] : 0}); s.pts.push_back({100 + 5e-4 * b[0], 5e-4 * b[1], dim == 3 ? 5e-4 * b[2] : 0}); } v.push_back(s); }
  { Set s; s.name = "scattered 60, extent 10 about (1e5,-2e5,3e4)"; for (int i = 0; i < 60; ++i) { auto a = pattern(i + 19); s.pts.push_back({1e5 + 10 * a[0], -2e5 + 10 * a[1], dim == 3 ? 3e4 + 10 * a[2] : 0}); } v.push_back(s); }
  { Set s; s.name = "scattered 60, extent 2 about (100,-80,60)"; for (int i = 0; i < 60; ++i) { auto a = pattern(i + 23); s.pts.push_back({100 + 2 * a[0], -80 + 2 * a[1], dim == 3 ? 60 + 2 * a[2] : 0}); } v.push_back(s); }
  { Set s; s.name = "scattered 500 over 20 m"; for (int i = 0; i < 500; ++i) { auto a = pattern(i + 7); s.pts.push_back({10 * a[0], 10 * a[1], dim == 3 ? 10 * a[2] : 0}); } v.push_back(s); }
  return v;
}

// rotation catalogue
inline std::vector<M3> rotations(int dim, int level = 0) {   // level 0 boundary set, 1 + catalogue, 2 + dense sweep
  const bool thorough = level >= 1;
  std::vector<M3> v;
  auto aa = [](LD a, V3 ax) { ax.normalize(); M3 K; K << 0, -ax[2], ax[1], ax[2], 0, -ax[0], -ax[1], ax[0], 0; return (M3::Identity() + sinl(a) * K + (1 - cosl(a)) * K * K).eval(); };
  const LD PI = 3.14159265358979323846264338327950288L;
  if (dim == 2) { for (LD a : {0.0L, 1e-6L, -1e-6L, 0.1L, -0.1L, PI / 2, -PI / 2, PI - 1e-6L, -(PI - 1e-6L), PI}) v.push_back(aa(a, V3(0, 0, 1)));
    if (thorough) for (int k = 1; k < 72; ++k) v.push_back(aa(-PI + k * PI / 36 + 0.003L, V3(0, 0, 1)));
    if (level >= 2) for (int k = 0; k < 720; ++k) v.push_back(aa(-PI + k * PI / 360 + 0.0007L, V3(0, 0, 1))); }
  else { for (V3 ax : {V3(1, 0, 0), V3(0, 1, 0), V3(0, 0, 1), V3(1, 1, 0), V3(1, -1, 1), V3(-2, 1, 3)}) for (LD a : {0.0L, 1e-6L, 0.1L, PI / 2, PI - 1e-6L, PI}) v.push_back(aa(a, ax));
    if (thorough) for (V3 ax : {V3(1, 0, 0), V3(0, 1, 0), V3(0, 0, 1), V3(1, 1, 0), V3(1, -1, 1), V3(-2, 1, 3), V3(0.1L, -1, 0.2L), V3(3, 2, -1)}) for (LD a : {1e-3L, 0.5L, 1.0L, 2.0L, 2.5L, 3.0L, PI - 1e-3L, PI - 1e-9L}) v.push_back(aa(a, ax));
    if (level >= 2) for (int i = 0; i < 24; ++i) { auto h = pattern(i + 31); V3 ax(h[0], h[1], h[2] + 0.013L); for (int k = 1; k <= 16; ++k) v.push_back(aa(k * PI / 16 - (k == 16 ? 1e-4L : 0.0L), ax)); } }
  return v;
}

// optimal rigid motion source -> target over correspondences, in long double:
// 2D closed form; 3D Horn's unit quaternion method (eigenvector of the 4x4 N matrix)
struct Rigid { M3 R; V3 t; LD s_dm1_plus_d; };   // last: sigma_{d-1}+sigma_d of the cross-covariance (conditioning of the rotation)
inline Rigid horn(const std::vector<V3>& src, const std::vector<V3>& tgt, int dim) {
  size_t n = src.size(); V3 ms = V3::Zero(), mt = V3::Zero();
  for (size_t i = 0; i < n; ++i) { ms += src[i]; mt += tgt[i]; }
  ms /= (LD)n; mt /= (LD)n;
  M3 S = M3::Zero(); for (size_t i = 0; i < n; ++i) S += (src[i] - ms) * (tgt[i] - mt).transpose();
  Rigid r; r.R = M3::Identity();
  if (dim == 2) {
    LD c = S(0, 0) + S(1, 1), s = S(0, 1) - S(1, 0); LD a = atan2l(s, c);
    r.R << cosl(a), -sinl(a), 0, sinl(a), cosl(a), 0, 0, 0, 1;
    Eigen::JacobiSVD<Eigen::Matrix<LD, 2, 2>> svd(S.block<2, 2>(0, 0)); r.s_dm1_plus_d = svd.singularValues()(0) + svd.singularValues()(1);
  } else {
    Eigen::Matrix<LD, 4, 4> N;
    LD Sxx = S(0, 0), Sxy = S(0, 1), Sxz = S(0, 2), Syx = S(1, 0), Syy = S(1, 1), Syz = S(1, 2), Szx = S(2, 0), Szy = S(2, 1), Szz = S(2, 2);
    N << Sxx + Syy + Szz, Syz - Szy, Szx - Sxz, Sxy - Syx,
         Syz - Szy, Sxx - Syy - Szz, Sxy + Syx, Szx + Sxz,
         Szx - Sxz, Sxy + Syx, -Sxx + Syy - Szz, Syz + Szy,
         Sxy - Syx, Szx + Sxz, Syz + Szy, -Sxx - Syy + Szz;
    Eigen::SelfAdjointEigenSolver<Eigen::Matrix<LD, 4, 4>> es(N);
    Eigen::Matrix<LD, 4, 1> q = es.eigenvectors().col(3);
    LD w = q[0], x = q[1], y = q[2], z = q[3];
    r.R << 1 - 2 * (y * y + z * z), 2 * (x * y - w * z), 2 * (x * z + w * y),
           2 * (x * y + w * z), 1 - 2 * (x * x + z * z), 2 * (y * z - w * x),
           2 * (x * z - w * y), 2 * (y * z + w * x), 1 - 2 * (x * x + y * y);
    Eigen::JacobiSVD<M3> svd(S); r.s_dm1_plus_d = svd.singularValues()(1) + svd.singularValues()(2);
  }
  r.t = mt - r.R * ms;
  return r;
}

}  // namespace regref
