// georef.hpp -- reference geodesy in long double, written from the definitions (not from the library's formulas).
#pragma once
#include <cmath>
#include <array>

namespace georef {

const long double PI = 3.14159265358979323846264338327950288L;
using V3 = std::array<long double, 3>;

struct Ell { long double a, b; long double e2() const { return (a * a - b * b) / (a * a); } };

// point of the ellipsoid surface whose outward normal is n(lat,lon): parametrise by the reduced (parametric) latitude
// beta, tan(beta) = (b/a) tan(lat); surface point = (a cos(beta) cos(lon), a cos(beta) sin(lon), b sin(beta)).
inline V3 normal(long double lat, long double lon) { return {cosl(lat) * cosl(lon), cosl(lat) * sinl(lon), sinl(lat)}; }
inline V3 surface(const Ell& E, long double lat, long double lon) {
  long double beta = atan2l(E.b * sinl(lat), E.a * cosl(lat));
  return {E.a * cosl(beta) * cosl(lon), E.a * cosl(beta) * sinl(lon), E.b * sinl(beta)};
}
inline V3 ecef(const Ell& E, long double lat, long double lon, long double h) {
  V3 s = surface(E, lat, lon), n = normal(lat, lon);
  return {s[0] + h * n[0], s[1] + h * n[1], s[2] + h * n[2]};
}
// geodetic from ECEF: Newton iteration on the reduced latitude of the foot point, in long double, to convergence
struct Geo { long double lat, lon, h; };
inline Geo geodetic(const Ell& E, const V3& p) {
  long double r = sqrtl(p[0] * p[0] + p[1] * p[1]);
  long double lon = atan2l(p[1], p[0]);
  long double lat = atan2l(p[2], r * (1 - E.e2()));
  for (int it = 0; it < 100; ++it) {
    long double s = sinl(lat), N = E.a / sqrtl(1 - E.e2() * s * s);
    long double nl = atan2l(p[2] + E.e2() * N * s, r);
    if (fabsl(nl - lat) < 1e-19L) { lat = nl; break; }
    lat = nl;
  }
  V3 s = surface(E, lat, lon), n = normal(lat, lon);
  long double h = (p[0] - s[0]) * n[0] + (p[1] - s[1]) * n[1] + (p[2] - s[2]) * n[2];
  return {lat, lon, h};
}
inline long double dist(const V3& a, const V3& b) { return sqrtl((a[0] - b[0]) * (a[0] - b[0]) + (a[1] - b[1]) * (a[1] - b[1]) + (a[2] - b[2]) * (a[2] - b[2])); }
inline long double angdiff(long double a, long double b) { return fabsl(remainderl(a - b, 2 * PI)); }

}  // namespace georef
