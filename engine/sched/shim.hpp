// shim.hpp -- force-included (-include) in front of every translation unit of the C19 build.
// It first pulls in every standard / Eigen header the repository sources and the harness use, then provides
// std::verif_mutex and std::verif_atomic<T> (a scheduling point followed by the operation on a REAL std::mutex /
// std::atomic<T>, so ThreadSanitizer still sees the genuine acquire / release edges) and finally renames the two
// tokens, so that the unmodified repository sources are compiled against the hooked types.
#pragma once
#include <algorithm>
#include <array>
#include <atomic>
#include <cassert>
#include <chrono>
#include <cmath>
#include <condition_variable>
#include <cstddef>
#include <cstdint>
#include <cstdio>
#include <cstdlib>
#include <cstring>
#include <ctime>
#include <deque>
#include <fstream>
#include <functional>
#include <future>
#include <iomanip>
#include <iostream>
#include <limits>
#include <list>
#include <map>
#include <memory>
#include <mutex>
#include <numeric>
#include <optional>
#include <queue>
#include <set>
#include <shared_mutex>
#include <sstream>
#include <string>
#include <thread>
#include <type_traits>
#include <unordered_map>
#include <unordered_set>
#include <utility>
#include <vector>
#include <Eigen/Core>
#include <Eigen/Geometry>

extern "C" {
void vs_point(int kind, const void* obj);
void vs_released(const void* obj);
}

namespace std {

class verif_mutex {
 public:
  verif_mutex() = default;
  verif_mutex(const verif_mutex&) = delete;
  verif_mutex& operator=(const verif_mutex&) = delete;
  void lock() { vs_point(1, this); real_.lock(); }
  void unlock() { real_.unlock(); vs_released(this); vs_point(3, this); }
  bool try_lock() { vs_point(2, this); return real_.try_lock(); }

 private:
  mutex real_;
};

template <class T> class verif_atomic {
 public:
  verif_atomic() noexcept = default;
  constexpr verif_atomic(T v) noexcept : real_(v) {}
  verif_atomic(const verif_atomic&) = delete;
  verif_atomic& operator=(const verif_atomic&) = delete;
  T load(memory_order o = memory_order_seq_cst) const noexcept { vs_point(2, this); return real_.load(o); }
  void store(T v, memory_order o = memory_order_seq_cst) noexcept { vs_point(2, this); real_.store(v, o); }
  T exchange(T v, memory_order o = memory_order_seq_cst) noexcept { vs_point(2, this); return real_.exchange(v, o); }
  bool compare_exchange_strong(T& e, T d, memory_order o = memory_order_seq_cst) noexcept { vs_point(2, this); return real_.compare_exchange_strong(e, d, o); }
  bool compare_exchange_weak(T& e, T d, memory_order o = memory_order_seq_cst) noexcept { vs_point(2, this); return real_.compare_exchange_weak(e, d, o); }
  operator T() const noexcept { return load(); }
  T operator=(T v) noexcept { store(v); return v; }

 private:
  atomic<T> real_;
};

}  // namespace std

#define mutex verif_mutex
#define atomic verif_atomic
