/* sched.c -- strictly serialising cooperative scheduler for real threads (C19).
 *
 * Compiled WITHOUT -fsanitize=thread and talking to the kernel through raw SYS_futex only, so that none of the
 * hand-offs below is visible to ThreadSanitizer: the only happens-before edges TSan sees are the ones the library's own
 * mutexes and atomics create.  One scenario thread runs at a time; every other one is parked at a scheduling point
 * (before a mutex lock, after a mutex unlock, before an atomic access, at thread start).  The controller (the harness
 * main thread) decides who runs next; a thread whose pending operation is the lock of a held mutex is disabled, not
 * blocked, so "no enabled thread" is a deadlock verdict instead of a hang.
 */
#define _GNU_SOURCE
#include <unistd.h>
#include <sys/syscall.h>
#include <linux/futex.h>
#include <stdint.h>
#include <string.h>
#include <limits.h>

#define MAXT 8
#define MAXM 64
enum { ST_NONE = 0, ST_PARKED = 1, ST_RUNNING = 2, ST_DONE = 3 };
enum { K_START = 0, K_LOCK = 1, K_ATOMIC = 2, K_YIELD = 3 };

static int g_active;
static int g_n;
static int g_state[MAXT];
static int g_kind[MAXT];
static const void *g_obj[MAXT];
static int g_turn[MAXT];
static int g_ctrl;
static const void *g_mobj[MAXM];
static int g_mowner[MAXM];
static uint64_t g_clock;
static int g_races;
static __thread int t_id = -1;

static long futex(int *addr, int op, int val) { return syscall(SYS_futex, addr, op, val, NULL, NULL, 0); }
static int ld(int *p) { return __atomic_load_n(p, __ATOMIC_SEQ_CST); }
static void st(int *p, int v) { __atomic_store_n(p, v, __ATOMIC_SEQ_CST); }

static void ctrl_notify(void) { __atomic_add_fetch(&g_ctrl, 1, __ATOMIC_SEQ_CST); futex(&g_ctrl, FUTEX_WAKE, INT_MAX); }

static void park(int id) {
  st(&g_turn[id], 0);
  st(&g_state[id], ST_PARKED);
  ctrl_notify();
  while (ld(&g_turn[id]) == 0) futex(&g_turn[id], FUTEX_WAIT, 0);
}

/* ---- called from scenario threads (through the shim) ---- */
void vs_point(int kind, const void *obj) {
  if (!ld(&g_active) || t_id < 0) return;
  g_kind[t_id] = kind; g_obj[t_id] = obj;
  park(t_id);
}
void vs_released(const void *obj) {
  if (!ld(&g_active) || t_id < 0) return;
  for (int i = 0; i < MAXM; ++i) if (g_mobj[i] == obj) { g_mowner[i] = -1; return; }
}
void vs_thread_begin(int id) {
  if (!ld(&g_active)) return;
  t_id = id; g_kind[id] = K_START; g_obj[id] = 0;
  park(id);
}
void vs_thread_end(void) {
  if (t_id < 0) return;
  int id = t_id; t_id = -1;
  if (!ld(&g_active)) return;
  st(&g_state[id], ST_DONE);
  ctrl_notify();
}
uint64_t vs_now(void) { return __atomic_add_fetch(&g_clock, 1, __ATOMIC_SEQ_CST); }

/* ---- ThreadSanitizer report hook: counts reports without being visible to the analysis ---- */
void __tsan_on_report(void *rep) { (void)rep; __atomic_add_fetch(&g_races, 1, __ATOMIC_SEQ_CST); }
int vs_race_count(void) { return ld(&g_races); }

/* ---- controller side ---- */
void vs_begin(int nthreads) {
  g_n = nthreads;
  for (int i = 0; i < MAXT; ++i) { g_state[i] = ST_NONE; g_turn[i] = 0; g_kind[i] = 0; g_obj[i] = 0; }
  for (int i = 0; i < MAXM; ++i) { g_mobj[i] = 0; g_mowner[i] = -1; }
  st(&g_active, 1);
}
void vs_end(void) { st(&g_active, 0); }

/* wait until every thread of the execution is parked or done */
void vs_quiesce(void) {
  for (;;) {
    int v = ld(&g_ctrl), busy = 0;
    for (int i = 0; i < g_n; ++i) { int s = ld(&g_state[i]); if (s == ST_NONE || s == ST_RUNNING) busy = 1; }
    if (!busy) return;
    futex(&g_ctrl, FUTEX_WAIT, v);
  }
}
static int owner_of(const void *obj) { for (int i = 0; i < MAXM; ++i) if (g_mobj[i] == obj) return g_mowner[i]; return -1; }
static int thread_enabled(int i) {
  if (ld(&g_state[i]) != ST_PARKED) return 0;
  if (g_kind[i] == K_LOCK && owner_of(g_obj[i]) >= 0) return 0;
  return 1;
}
/* canonical order: the thread that ran last first (if still enabled), then ascending ids; returns count */
int vs_enabled(int last, int *out) {
  int n = 0;
  if (last >= 0 && last < g_n && thread_enabled(last)) out[n++] = last;
  for (int i = 0; i < g_n; ++i) if (i != last && thread_enabled(i)) out[n++] = i;
  return n;
}
int vs_all_done(void) { for (int i = 0; i < g_n; ++i) if (ld(&g_state[i]) != ST_DONE) return 0; return 1; }
int vs_pending_kind(int t) { return g_kind[t]; }
/* grant the pending operation of thread t, let it run to its next scheduling point (or its end) */
void vs_resume(int t) {
  if (g_kind[t] == K_LOCK) {
    int slot = -1;
    for (int i = 0; i < MAXM; ++i) if (g_mobj[i] == g_obj[t]) { slot = i; break; }
    if (slot < 0) for (int i = 0; i < MAXM; ++i) if (g_mobj[i] == 0) { slot = i; g_mobj[i] = g_obj[t]; break; }
    if (slot >= 0) g_mowner[slot] = t;
  }
  st(&g_state[t], ST_RUNNING);
  st(&g_turn[t], 1);
  futex(&g_turn[t], FUTEX_WAKE, 1);
  vs_quiesce();
}
