# Per-property build/run configuration for bin/check.
#  sources : repository translation units compiled from $VERIF_REPO (default /repo) working tree
#  harness : file under /verif/harness
#  flavour : compiler + flags set (see FLAVOURS)
#  level   : evidence level; rule: how cases are enumerated and what counts as non-trivial

COMMON = ['-std=c++17', '-Wall', '-Wno-unused-parameter', '-Wno-unused-variable', '-Wno-sign-compare',
          '-Wno-unused-but-set-variable', '-Wno-deprecated-declarations']

FLAVOURS = {
    # numeric, Eigen-heavy: optimised, assertions ON (no -DNDEBUG), no sanitizer (234 s/file with ASan)
    'plain': {
        'cxx': 'g++',
        'flags': COMMON + ['-O2', '-g0', '-Wno-maybe-uninitialized', '-Wno-class-memaccess', '-Wno-array-bounds',
                           '-Wno-stringop-overflow', '-Wno-uninitialized'],
        'harness_flags': ['-fno-access-control'],
        'libs': ['-lpthread'],
    },
    # light sources: ASan + UBSan, any report aborts the case (=> crash violation)
    'asan': {
        'cxx': 'clang++',
        'flags': COMMON + ['-O1', '-g', '-fsanitize=address,undefined', '-fno-sanitize-recover=all',
                           '-fno-omit-frame-pointer', '-Wno-unknown-warning-option', '-Wno-unused-private-field'],
        'harness_flags': ['-fno-access-control'],
        'link_flags': ['-fsanitize=address,undefined'],
        'libs': ['-lpthread'],
        'env': {'ASAN_OPTIONS': 'detect_leaks=0:abort_on_error=1:allocator_may_return_null=1',
                'UBSAN_OPTIONS': 'print_stacktrace=1:halt_on_error=1'},
    },
}

import os as _os
_SHIM = _os.path.join(_os.path.dirname(_os.path.dirname(_os.path.abspath(__file__))), 'engine', 'sched', 'shim.hpp')
FLAVOURS['tsan'] = {
    'cxx': 'clang++',
    # every translation unit (repository sources and harness) is compiled behind the force-included shim
    'flags': COMMON + ['-O1', '-g', '-fsanitize=thread', '-fno-omit-frame-pointer', '-Wno-unknown-warning-option',
                       '-Wno-unused-private-field', '-Wno-keyword-macro', '-include', _SHIM],
    'harness_flags': ['-fno-access-control'],
    'link_flags': ['-fsanitize=thread'],
    'libs': ['-lpthread'],
    'env': {'TSAN_OPTIONS': 'suppress_equal_stacks=0:suppress_equal_addresses=0:exitcode=0:report_signal_unsafe=0:'
                            'history_size=2:log_path={RDIR}/tsan'},
}

GEODESY = ['src/geodesy/ECEFConverter.cpp', 'src/geodesy/EarthEllipsoid.cpp', 'src/geodesy/GeodeticCoordinates.cpp',
           'src/geodesy/WGS84Coordinates.cpp']

PROPS = {
    'C13': {
        'sources': ['src/containers/grid/GridIndexMapping.cpp'],
        'harness': 'c13_gridindex.cpp',
        'flavour': 'asan',
        'level': 'exploration',
        'rule': 'Cartesian lattice: scalar type x dimension x resolution x per-axis (lower,upper) bound pair x '
                'constructor form; per grid every per-axis point of the set {bounds, inward nextafter, every cell '
                'centre, centre +- res/4, both cell borders and their nextafter neighbours} (strided above 4000 '
                'cells/axis, first/last 50 always) plus the product of corner values. One evaluation = one point '
                'mapped and checked; non-trivial = point within 1e-6*res of a cell border or of an extent bound, or a '
                'centre (distinct by construction: lattice coordinates are de-duplicated per axis).',
        'assumptions': ['tolerance res/2 + 3 ulp(max|bound|+res) + 4 eps (extent+res) per axis (printed in bounds)',
                        'configurations with more than 1e7 cells are outside the quantifier and skipped'],
        'tiers': {'quick': {'deadline': 300}, 'thorough': {'deadline': 3000}},
        'engine': 'lattice',
        'technique': 'bounded-exhaustive input/configuration lattice enumeration on the real code (three constructor forms incl. twin axes; constructed / copied / assigned objects), definitional oracle in long double',
        'level_text': 'every grid configuration and every point of a stated finite lattice (dense at cell borders, bounds, '
                      'centres, one-ulp neighbours) is mapped by the real GridIndexMapping and checked against the '
                      'definition; complete enumeration of that lattice, nothing sampled',
        'level_note': 'holds for the lattice values only; tolerance formula stated in evidence; compilers, libm and Eigen trusted',
    },
    'C15': {
        'sources': [],
        'harness': 'c15_wrapgrid.cpp',
        'flavour': 'asan',
        'level': 'model_checking',
        'engine': 'sequence',
        'rule': 'explicit-state search over the real WrappableGrid<int,2|3> with a window model in lock-step. S1: BFS to '
                'fixpoint over index-offset states, every offset vector from every state, all cells refilled with unique '
                'tags before each translation. S2: all translation sequences up to the stated depth, interleaved with '
                '{no write, single write, full rewrite}, fresh or default empty value, canonical states (offsets + value '
                'pattern up to renaming) de-duplicated. evaluation = one translate compared cell by cell; non-trivial = '
                'the translation both keeps and blanks cells (S1) or is a second or later translation (S2).',
        'assumptions': ['cell type int (the grid only copies values)', 'states are (impl offsets, model accumulated offset mod size[, value pattern])'],
        'tiers': {'quick': {'deadline': 600, 'case_timeout': 300}, 'thorough': {'deadline': 3000, 'case_timeout': 600}},
        'technique': 'explicit-state model checking of the implementation: BFS over operation sequences to fixpoint / stated depth with a reference window model in lock-step; grids obtained by copy and by assignment; first-access checks',
        'level_text': 'all reachable index-offset states (fixpoint) with every offset from every state, and every '
                      'translation/write sequence up to depth 3 on all grid sizes the property names, each step compared '
                      'cell by cell with a window-over-unbounded-map model on the real object',
        'level_note': 'bounded: grid sizes and offsets as listed in evidence bounds; int cells; ASan/UBSan clean on every execution',
    },
    'C16': {
        'sources': ['src/monitoring/OnlineAverage.cpp', 'src/monitoring/OnlineVariance.cpp'],
        'harness': 'c16_window.cpp',
        'flavour': 'asan',
        'level': 'model_checking',
        'engine': 'sequence',
        'rule': 'S1: BFS to fixpoint over the product (private state of the real OnlineAverage/OnlineVariance x deque '
                'model), ops update(v in 5-value alphabet incl. |v|/precision=1e8) and reset(), windows 1..4, six '
                'precisions. S2: 10*W-update runs for every window 1..64 with iterative deviation bounding (reset / '
                'outlier placed at every position, bound per window in evidence). S3: RingOfEigenVector capacities '
                '1..16, append/clear, BFS to fixpoint. evaluation = one oracle comparison after an operation; '
                'non-trivial = window has wrapped or a reset precedes the operation (S1), run contains a deviation '
                '(S2), ring full and wrapped (S3).',
        'assumptions': ['sample values are mid-cell multiples of the precision so truncation is unambiguous',
                        'precision 1e-5: the library multiplier is int(1/1e-5); one quantum of disagreement with round(1/p) is allowed there'],
        'tiers': {'quick': {'deadline': 300}, 'thorough': {'deadline': 3000, 'case_timeout': 300}},
        'technique': 'explicit-state model checking of the implementation (BFS to fixpoint), exhaustive sequences without de-duplication (incl. copies), deviation-bounded exhaustive long runs on three scripts, exact integer reference model',
        'level_text': 'every reachable product state of small windows is visited and every operation tried from it; '
                      'long runs cover every window size with every placement of up to k deviations; the ring buffer is '
                      'explored to fixpoint for every capacity 1..16; UBSan turns signed overflow into a failing case',
        'level_note': 'value alphabet and deviation kinds are finite and listed; windows above 5 are covered by scripted runs, not by full state search',
    },
    'C18': {
        'sources': ['src/diagnostics/CheckupReliability.cpp', 'src/diagnostics/Diagnostic.cpp',
                    'src/diagnostics/DiagnosticReport.cpp', 'src/diagnostics/DiagnosticStatus.cpp',
                    'src/geodesy/WGS84Coordinates.cpp'],
        'harness': 'c18_checkups.cpp',
        'flavour': 'asan',
        'level': 'model_checking',
        'engine': 'sequence',
        'rule': 'L: full lattice check-up kind x target x epsilon x value (each threshold, its two nextafter neighbours, '
                '+-1/16, far values; double/float/int; fresh and reused object), all 64 status triples, all status lists '
                'up to length 8 and length-20 lists with <=2 deviations, all pairs/triples of a 6-report catalogue. '
                'S: every sequence of evaluate(v)/timeout() to the stated depth on one object (history replayed on a fresh '
                'object), report vs model after every step. states = distinct observable report states + initial, '
                'transitions = operations executed in S. non-trivial = value on a threshold (L), mixed list, second or '
                'later operation of a sequence (S).',
        'assumptions': ['thresholds and values are dyadic so that the oracle comparison is exact in long double'],
        'tiers': {'quick': {'deadline': 300}, 'thorough': {'deadline': 3000, 'case_timeout': 600}},
        'technique': 'exhaustive enumeration of operation sequences on the real check-up objects up to a depth, plus exhaustive input lattices for thresholds, status algebra, lists and report concatenation, against a reference model',
        'level_text': 'every evaluate/timeout sequence up to depth 5 (thorough 7) on each check-up kind is executed on the '
                      'real object and compared with a model after every step; threshold inclusivity is decided on the '
                      'threshold itself and one ulp on either side; the status algebra is checked on all triples and on '
                      'all lists up to length 8',
        'level_note': 'finite alphabets as listed; lists longer than 8 only with <=2 deviations from a constant list',
    },
    'C17': {
        'sources': ['src/monitoring/RateMonitoring.cpp', 'src/diagnostics/CheckupRate.cpp', 'src/diagnostics/Diagnostic.cpp',
                    'src/diagnostics/DiagnosticReport.cpp', 'src/diagnostics/DiagnosticStatus.cpp'],
        'harness': 'c17_rate.cpp',
        'flavour': 'asan',
        'level': 'model_checking',
        'engine': 'sequence',
        'rule': 'S1: BFS to fixpoint over the product (private state of a real RateMonitoring + CheckupEqualToRate + '
                'CheckupGreaterThanRate x reference model) with an 11-event alphabet (data periods 1us..10s incl. 0.5s and '
                '0.5s+1ns, heartbeat offsets 0..1s); objects are not copyable so each state is its event history replayed '
                'on fresh objects, at two time origins. S2: steady 500-event scripts for windows 10..64 with every '
                'placement of <=k deviations (jitter, burst, silences, early/late heartbeats). evaluation = one event '
                'applied and all observables compared; non-trivial = window has rolled over or the event is a heartbeat '
                '(S1), run contains a deviation (S2).',
        'assumptions': ['expected rates chosen so that 2*rate is an integer (window size unambiguous)',
                        'rate compared within 4 ulp; a rate within 8 ulp of a threshold may take either verdict, consistently',
                        'info string must be the default ostream print of the rate (or of a value within 4 ulp of the model rate)'],
        'tiers': {'quick': {'deadline': 600, 'case_timeout': 400}, 'thorough': {'deadline': 3300, 'case_timeout': 1800}},
        'technique': 'explicit-state model checking of the implementation: BFS over event histories to fixpoint (history replay on fresh objects at three time origins), exhaustive sequences without de-duplication, deviation-bounded and jittered long scripts, reference model in lock-step',
        'level_text': 'all reachable product states for window 4 with every event from every state; for windows up to 64 '
                      'every placement of up to k deviations in a steady script; rate, timeout verdict, returned status '
                      'and the full report compared with the model after every event',
        'level_note': 'finite event alphabet; absolute time abstracted from the state (validated by running every transition at two origins)',
    },
    'C14': {
        'sources': ['src/containers/grid/RayTracing.cpp', 'src/containers/grid/GridIndexMapping.cpp'],
        'harness': 'c14_raycast.cpp',
        'flavour': 'asan',
        'level': 'model_checking',
        'engine': 'sequence',
        'rule': 'L: full lattice scalar x DIM x grid x origin point x end point, points on a sub-cell lattice (border, '
                'quarter, centre) of cells spread over the grid incl. first/last; each cast of a fresh caster checked '
                'against the geometric definition. S: every sequence of the 39 caster operations (incl. setGridIndexMapping between two grids, assignment to another caster, copy, aliased arguments, the grid re-assigned in place, a same-index point after a grid switch) to the stated depth on '
                'one caster; each cast with an explicit end point compared with a fresh caster and with the geometric '
                'oracle. states = distinct private caster states seen, transitions = operations executed. non-trivial = '
                'ray longer than 2 cells or axis-aligned/diagonal/coincident (L); cast that is not the first operation (S).',
        'assumptions': ['tolerance (cells+4) ulp(max(range,|coord|)) + 4 ulp(|coord|) for "segment crosses cell" and "last cell contains end point"; recorded as a fraction of the resolution in metrics_max',
                        'operations that the interface gives no meaning to (setEndPoint / cast(e) before any origin was set) are not in the alphabet'],
        'tiers': {'quick': {'deadline': 400, 'case_timeout': 120}, 'thorough': {'deadline': 3300, 'case_timeout': 900}},
        'technique': 'exhaustive enumeration of caster operation sequences to a depth and a deviation-bounded long script (fresh-object differential oracle), plus exhaustive origin/end/grid lattices incl. near-corner and long rays with a geometric oracle built from the grid definition',
        'level_text': 'every operation sequence up to depth 3 (thorough 4) over a 32-operation alphabet, on all four '
                      'instantiations, and every origin/end pair of a boundary-dense point lattice on grids up to 2001 '
                      'cells per axis; each cast checked cell by cell against the segment',
        'level_note': 'finite point lattice; rounding tolerance grows with ray length (for float rays of thousands of cells it approaches the cell size; see metrics_max)',
    },
    'C10': {
        'sources': ['src/transform/SmartRotation3D.cpp'],
        'harness': 'c10_angles.cpp',
        'flavour': 'asan',
        'level': 'exploration',
        'engine': 'lattice',
        'rule': 'full lattice roll x pitch x yaw (boundary values 0, +-pi/2, +-pi, +-(2pi-1e-9), pitch up to pi/2-1e-3) in '
                'float and double through angles->R->angles, angles->q->angles (4 quaternion scalings), R->angles->R, '
                'SmartRotation3D vs eulerAnglesToRotation3D vs the definition; axis-angle matrix lattice; normaliser '
                'inputs k*pi/2 +- {0,1ulp,...} and a dense lattice in (-4pi,4pi); every init() sequence to depth 4 on '
                'one SmartRotation3D; polar/spherical lattices. non-trivial = an angle beyond the principal range or '
                'pitch beyond 1.5 rad (triples), |input|>pi (normalisers), re-initialisation (sequences), all matrix and '
                'coordinate cases.',
        'assumptions': ['normaliser intervals read as closed ([0,2pi], [-pi,pi])', 'spherical round trip tolerance 8 eps (1 + 1/max(theta, sqrt(eps))) relative to the norm because the elevation is acos-based'],
        'tiers': {'quick': {'deadline': 300}, 'thorough': {'deadline': 3000, 'case_timeout': 300}},
        'technique': 'bounded-exhaustive lattice enumeration on the real code with long-double definitional oracle; exhaustive init() sequences to a depth and long init trajectories on one object; value-semantics checks of the coordinate classes',
        'level_text': 'complete enumeration of a boundary-dense angle lattice in float and double through every conversion '
                      'path the property names, of an axis-angle matrix lattice, of the normaliser inputs around every '
                      'multiple of pi/2 and of all SmartRotation3D::init sequences to depth 4',
        'level_note': 'holds for the lattice values; tolerances stated in evidence bounds',
    },
    'C11': {
        'sources': ['src/geometry/Pose3D.cpp', 'src/geometry/Pose2D.cpp', 'src/geometry/Position2D.cpp', 'src/geometry/Position3D.cpp',
                    'src/geometry/Twist3D.cpp', 'src/geometry/Twist2D.cpp', 'src/geometry/PoseAndTwist3D.cpp', 'src/geometry/PoseAndTwist2D.cpp',
                    'src/geometry/Ellipse.cpp', 'src/transform/SmartRotation3D.cpp'],
        'harness': 'c11_poses.cpp',
        'flavour': 'plain',
        'level': 'exploration',
        'engine': 'lattice',
        'rule': 'full lattices: (covariance catalogue x attitude x position) through every 3D->2D reduction and the '
                'se2<->se3 embedding (exact comparison); (rigid transform x attitude x position) for the group action incl. '
                'compositions, attitudes compared as rotations against a long-double reference; (eigenvalue pair x axis '
                'angle x sigma x entry point) for the uncertainty ellipse. non-trivial = every reduction case; group-action '
                'cases with a non-planar transform or within 0.02 rad of gimbal lock; ellipses that are rank-deficient or '
                'not axis-aligned.',
        'assumptions': ['cases within 1e-3 rad of gimbal lock before or after the transform are outside the quantifier and skipped'],
        'tiers': {'quick': {'deadline': 300}, 'thorough': {'deadline': 3300, 'case_timeout': 1500}},
        'technique': 'bounded-exhaustive lattice enumeration on the real code (cube-group and nearly planar transforms, graded nearly-special ellipse axes) with long-double reference rotations and exact component-selection oracle',
        'level_text': 'complete enumeration of the stated catalogues (PSD covariances incl. rank-deficient, attitudes up to '
                      '1.5e-3 rad from gimbal lock, 27 rigid transforms and their compositions, rotated and singular 2x2 '
                      'covariances) through every conversion the property names',
        'level_note': 'catalogue values only; attitude tolerance grows as 1/cos(pitch)',
    },
    'C12': {
        'sources': ['src/geometry/Pose3D.cpp', 'src/geometry/Pose2D.cpp', 'src/geometry/Position3D.cpp', 'src/geometry/Ellipse.cpp',
                    'src/transform/SmartRotation3D.cpp', 'src/regression/leastsquares/LeastSquares.cpp'],
        'harness': 'c12_derivatives.cpp',
        'flavour': 'plain',
        'level': 'exploration',
        'engine': 'sequence',
        'rule': 'full lattices: (roll x pitch x yaw x angle index) for the rotation derivative matrices and (x vector) for '
                'dRTdAngles, each against Richardson-extrapolated central differences of the library own R(); (rigid '
                'transform x attitude x position x covariance) for the pose covariance against J_fd C J_fd^T with J_fd '
                'from central differences of the library own pose transformation; (estimate size x data size x solver '
                'x preconditioner x scalar) for the solver covariance against a long-double inverse normal matrix. '
                'Explorer S: one SmartRotation3D (three construction forms) through every sequence of 4 (thorough 7) '
                'operations out of 13 (init with 6 angle triples in both overloads, read of all derivative matrices), '
                'every read bit-equal to a fresh object. Every case is a distinct linearisation point and counts as non-trivial.',
        'assumptions': ['finite-difference truncation error below 1e-9 for h=1e-4 with Richardson extrapolation (angles O(1))',
                        'a derivative residual that equals exactly the leftover-identity term is classified separately (site suffix .strayIdentityTerm) so that any other derivative error is still a violation'],
        'tiers': {'quick': {'deadline': 300}, 'thorough': {'deadline': 3000}},
        'technique': 'bounded-exhaustive lattice of linearisation points on the real code with a finite-difference oracle built from the implementation own maps; exhaustive init/read/copy sequences and every count of inits between reads on one rotation object against a fresh object',
        'level_text': 'every linearisation point of the stated lattices (pitch up to pi/2-0.05, 28 rigid transforms incl. nearly planar ones, 36 '
                      'attitudes, 14 PSD covariances incl. rank-1) compared with finite differences of the implementation '
                      'own maps',
        'level_note': 'lattice values only; finite-difference oracle accuracy 1e-7..1e-6',
    },
    'C20': {
        'sources': ['src/containers/boundingbox/AxisAlignedBoundingBox.cpp', 'src/containers/boundingbox/OrientedBoundingBox.cpp',
                    'src/pointset/algorithms/PointSetPreconditioner.cpp'],
        'harness': 'c20_bounding.cpp',
        'flavour': 'plain',
        'level': 'exploration',
        'engine': 'lattice',
        'rule': 'full lattices: (scalar x DIM x centre x half extents incl. zero x rotation x box-frame query lattice on '
                'faces/edges/corners and 2^-20 inside/outside) for AABB/OBB containment and the enclosing box; all pairs '
                'of intervals from a 5-value bound lattice; (8 point types x size x octant x offset x shape) for the '
                'preconditioner extents; Array/Matrix containers for min/max/mean. non-trivial = query within 8 ulp of a '
                'face, every enclosing-box / interval / container case, point sets with a negative octant.',
        'assumptions': ['a query point within 8 ulp(scale) of a face may get either verdict (rounding of p-c and R^T), except for centre 0 / identity rotation where the comparison is exact'],
        'tiers': {'quick': {'deadline': 300}, 'thorough': {'deadline': 3000}},
        'technique': 'bounded-exhaustive lattice enumeration on the real code (constructed / copied / assigned objects, unique extreme at every index, recompute and refilled buffers), definitional oracle in long double',
        'level_text': 'complete enumeration of the stated centre/extent/rotation/query lattices for both box kinds, of all '
                      'interval pairs over a bound lattice, and of point sets in every octant for all eight point types',
        'level_note': 'lattice values only',
    },
    'C01': {
        'sources': GEODESY,
        'harness': 'c01_ecef.cpp',
        'flavour': 'asan',
        'level': 'exploration',
        'engine': 'lattice',
        'rule': 'full lattice ellipsoid x latitude x longitude x height; longitudes dense at the antimeridian (+-pi, '
                '+-(pi-1e-k) k=3..15), at 0 and +-pi/2; Cartesian points on the exact antimeridian half-plane; forward map '
                'checked against the definition (ellipsoid equation, normal direction, h n offset) and an independent '
                'long-double reference, both round trips against the stated tolerances. non-trivial = longitude within '
                '1e-2 rad of 0, +-pi/2, +-pi or |latitude| > 1.55 rad, and every exact-antimeridian Cartesian point.',
        'assumptions': ['termination is observed by the per-case watchdog (20 s)'],
        'tiers': {'quick': {'deadline': 300}, 'thorough': {'deadline': 3000}},
        'technique': 'bounded-exhaustive input/configuration lattice enumeration on the real code plus step-size-graded trajectories on one long-lived converter, definitional oracle in long double',
        'level_text': 'complete enumeration of a lattice that is dense exactly where the conversion formulas change regime '
                      '(antimeridian, prime and 90-degree meridians, high latitudes, negative heights, sphere and extreme '
                      'flattenings); every point checked against the definition of the normal construction',
        'level_note': 'lattice values only; reference implementation in engine/georef.hpp (long double)',
    },
    'C02': {
        'sources': GEODESY + ['src/geodesy/ENUConverter.cpp'],
        'harness': 'c02_enu.cpp',
        'flavour': 'asan',
        'level': 'model_checking',
        'engine': 'sequence',
        'rule': 'L: full lattice anchor (lat incl. +-85 deg, lon incl. +-180 and +-179.999 deg, height) x local point (up to '
                '100 km / 10 km) against the definition of the east/north/up frame in long double. S: every sequence of the '
                '18 converter operations to the stated depth from 4 initial constructions, against a {anchored?, anchor} '
                'model with reference ENU math; after every step the flag, anchor and transform must equal those of a fresh '
                'converter anchored at the model anchor. states = distinct (flag, anchor, transform) bit patterns reached; '
                'metrics_max.states_new_at_last_depth = 0 means the reachable set was already closed one level earlier. '
                'non-trivial = anchors near the pole/antimeridian or off-axis points (L); any operation after the first (S).',
        'assumptions': ['conversions that assert(isAnchored_) are only issued when the model says anchored (documented precondition)',
                        'for the altitude-less toENU overload the oracle completes the point with the anchor altitude the converter reports'],
        'tiers': {'quick': {'deadline': 300}, 'thorough': {'deadline': 3000, 'case_timeout': 600}},
        'technique': 'exhaustive enumeration of converter operation sequences to a depth (incl. assignment and copy; reachable state set closed), deviation-bounded long script, re-anchoring trajectories, reference model and fresh-object differential oracle, plus an exhaustive anchor/point lattice against the frame definition',
        'level_text': 'all operation sequences up to depth 4 (thorough 5) from every construction form, which closes the '
                      'reachable state set and tries every operation from every reachable state; frame orientation decided '
                      'against the definition (east = z x up), not by round trips',
        'level_note': 'finite anchor / point alphabets; GRS80 only (the converter has no other ellipsoid)',
    },
    'C03': {
        'sources': ['src/geodesy/LambertConverter.cpp', 'src/geodesy/EarthEllipsoid.cpp', 'src/geodesy/WGS84Coordinates.cpp'],
        'harness': 'c03_lambert.cpp',
        'flavour': 'asan',
        'level': 'exploration',
        'engine': 'lattice',
        'rule': 'full lattice projection parameter set (secant and tangent, both hemispheres, five eccentricities, named '
                'French zones) x point (dlat x dlon around the origin); per point the local scales along meridian and '
                'parallel from central differences of the library own forward map, the inverse, origin and central-meridian '
                'images; plus every sequence of 3 calls interleaved over three long-lived converters on different ellipsoids, '
                'each result bit-equal to an isolated fresh converter. non-trivial = every point other than the projection '
                'origin, every standard-parallel check and every interleaved call.',
        'assumptions': ['finite differences with step 1e-5 rad: truncation + rounding below 1e-9 relative', 'a conversion that does not return within the per-case deadline is a violation (outcome hang)'],
        'tiers': {'quick': {'deadline': 400, 'case_timeout': 15}, 'thorough': {'deadline': 3000, 'case_timeout': 15}},
        'technique': 'bounded-exhaustive configuration/input lattice enumeration on the real code; geometric oracle (conformality, true scale) from finite differences of the implementation own forward map; interleaved long-lived converters; step-size-graded trajectories; watchdog for termination',
        'level_text': 'complete enumeration of the stated parameter-set and point lattices in both hemispheres; the defining '
                      'geometric properties are decided at every point rather than pinned values',
        'level_note': 'lattice values only',
    },
    'C07': {
        'sources': ['src/regression/leastsquares/LeastSquares.cpp'],
        'harness': 'c07_leastsquares.cpp',
        'flavour': 'plain',
        'level': 'model_checking',
        'engine': 'sequence',
        'rule': 'L: full lattice estimate size 1..8 x data size x prescribed condition number x magnitude x consistency x '
                'weights x preconditioner x {float,double}, design matrices built from a fixed orthonormal basis and '
                'prescribed singular values; every solver path against a Householder-QR reference in long double. '
                'S: every sequence (to the stated depth) of 81 problem kinds (estimate size, data size, solver path, '
                'preconditioner kept / two-argument / one-argument setter) solved with one solver object whose J/Y/W buffers are NaN-poisoned before '
                'each problem; result vs a fresh solver; every unweighted step is solved again by the other path and by the first one without rewriting the problem, each answer vs the fresh solver. states = distinct (buffer rows, buffer cols, estimate size, '
                'preconditioner) tuples, transitions = problems solved in S. non-trivial = kappa>1 or non-unit magnitude or '
                'weights or preconditioner (L); any problem after the first (S).',
        'assumptions': ['normal-equation accuracy bound 8 p eps kappa(J)^2; cases with 8 p kappa^2 eps > 0.5 carry no digits and are skipped (counted in trivial_skipped)',
                        're-estimating without refilling after weightedEstimate is not in the alphabet (the weighted path overwrites J and Y in place)'],
        'tiers': {'quick': {'deadline': 400, 'case_timeout': 120}, 'thorough': {'deadline': 3300, 'case_timeout': 1200}},
        'technique': 'exhaustive enumeration of problem sequences on one solver object (incl. assignment and copy) with NaN-poisoned buffers and fresh-object differential oracle, deviation-bounded long script, data-size profiles, plus an exhaustive problem lattice incl. every data size against a QR reference',
        'level_text': 'all sequences of up to 3 (thorough 4) problems of varying estimate and data sizes on one solver, and a '
                      'complete lattice of conditioned / scaled / weighted / preconditioned problems through the Cholesky, '
                      'SVD and weighted paths',
        'level_note': 'finite problem catalogue; tolerances from the normal-equation error bound',
    },
    'C08': {
        'sources': ['src/pointset/KdTree.cpp'],
        'harness': 'c08_kdtree.cpp',
        'flavour': 'plain',
        'level': 'exploration',
        'engine': 'lattice',
        'rule': 'small scope: every multiset of 1..5 points of a 3x3 / 2x2x2 lattice (ties and exact duplicates by '
                'construction), both storage orders, index rebuilt at leaf sizes 10/1/2, queries on a half-step lattice and '
                '1e6 away, every k<=n; structured: lattices up to 5000 points, collinear, coplanar, r-fold duplicates, two '
                'clusters, all eight point types, every k in 1..min(n,50). evaluation = one query at one k compared with '
                'brute force; non-trivial = k>1.',
        'assumptions': ['distances compared within 4 eps relative (same scalar type, same summation order as the metric adaptor)'],
        'tiers': {'quick': {'deadline': 400, 'case_timeout': 120}, 'thorough': {'deadline': 3000, 'case_timeout': 600}},
        'technique': 'bounded-exhaustive small-scope enumeration of point multisets x queries x k on the real index, brute-force oracle; structured large sets near and far from the origin; query-order independence; two coexisting trees',
        'level_text': 'small-scope hypothesis made exhaustive: all point multisets up to 5 points of a lattice, every leaf '
                      'size that changes the tree shape, every query of a half-step lattice and every k; plus structured '
                      'sets up to 5000 points for the shipped leaf size',
        'level_note': 'sets larger than 5 points are structured, not exhaustive',
    },
    'C09': {
        'sources': ['src/pointset/algorithms/NormalAndCurvatureEstimation.cpp', 'src/pointset/KdTree.cpp'],
        'harness': 'c09_normals.cpp',
        'flavour': 'plain',
        'level': 'exploration',
        'engine': 'lattice',
        'rule': 'full lattice point type (8) x cloud catalogue (planes / lines on both sides of every axis at distances '
                '0.5, 2, 50, tilted, two surfaces meeting, curved, rippled, k+1-point and ~2000-point clouds) x k in '
                '{3,5,10,20,30} x rotation about the origin x output-normal initialisation (zero / default-constructed), all '
                'six overloads; one evaluation = one point of one cloud checked. non-trivial = point whose neighbourhood '
                'has relative eigen-gap > 1e-6, conditioning bound <= 0.05 and no k/(k+1) distance tie (others are counted '
                'in trivial_skipped for the direction clause only; unit length, orientation and curvature range are '
                'checked for every point).',
        'assumptions': ['direction tolerance 6 eps (1+R/s)/gap with R the coordinate magnitude and s the neighbourhood spread (two-pass covariance in the scalar type)'],
        'tiers': {'quick': {'deadline': 400, 'case_timeout': 120}, 'thorough': {'deadline': 3000, 'case_timeout': 600}},
        'technique': 'bounded-exhaustive configuration lattice on the real code; PCA reference in long double on the implementation own neighbourhoods, analytic normals for planar clouds, rotation differential oracle, history / copy / refilled-buffer differential oracle',
        'level_text': 'complete enumeration of the cloud / k / type / rotation / output-initialisation lattice with every '
                      'clause of the property decided per point (unit length, sensor-facing, least-variance direction, '
                      'exact planar normal, curvature range, equivariance)',
        'level_note': 'catalogue clouds only',
    },
    'C04': {
        'sources': ['src/transform/estimation/FindRigidTransformationBySVD.cpp', 'src/pointset/algorithms/PreconditionedPointSet.cpp',
                    'src/pointset/algorithms/PointSetPreconditioner.cpp', 'src/pointset/algorithms/Correspondence.cpp'],
        'harness': 'c04_svd.cpp',
        'flavour': 'plain',
        'level': 'exploration',
        'engine': 'lattice',
        'rule': 'full lattice point type (8) x set catalogue (3 points .. 500 points, exactly coplanar, nearly coplanar, '
                'clustered) x rotation (incl. angles 1e-6, pi-1e-6, pi about 6 axes) x translation x perturbation x '
                'correspondence mode x overload x preconditioning scale; each result against Horn quaternion / closed-form '
                'reference in long double. non-trivial = coplanar set, perturbed data, non-identity correspondences or a '
                'non-default overload.',
        'assumptions': ['rotation accuracy bound 64 eps n Ms Mt/(s_{d-1}+s_d) from the perturbation theory of the orthogonal Procrustes problem; cases where a quarter of it exceeds 1e-9 (float 1e-4) are not resolvable in that scalar type and are counted in trivial_skipped',
                        'preconditioning means the same isotropic scale on both sets without translation (the only form under which the library formula is an identity)'],
        'tiers': {'quick': {'deadline': 400, 'case_timeout': 200}, 'thorough': {'deadline': 3000, 'case_timeout': 900}},
        'technique': 'bounded-exhaustive input/configuration lattice on the real estimator incl. every point count, poisoned unreferenced points and reused / copied / assigned estimators, independent reference solution (Horn) in long double',
        'level_text': 'complete enumeration of the stated catalogue through all four overloads and all eight point types; '
                      'properness of the rotation and optimality decided for every case',
        'level_note': 'catalogue values only',
    },
    'C05': {
        'sources': ['src/transform/estimation/FindRigidTransformationByLeastSquares.cpp', 'src/regression/leastsquares/LeastSquares.cpp',
                    'src/pointset/algorithms/PreconditionedPointSet.cpp', 'src/pointset/algorithms/PointSetPreconditioner.cpp',
                    'src/pointset/algorithms/Correspondence.cpp'],
        'harness': 'c05_lsreg.cpp',
        'flavour': 'plain',
        'level': 'exploration',
        'engine': 'sequence',
        'rule': 'full lattice point type (8) x scene (6..500 target points with unit normals spanning the space: box faces, '
                'circle, sphere, room, mixed fields) x rotation angle/axis x translation x exact/perturbed x correspondence '
                'mode x overload (fresh, one estimator reused across the whole scene, aligned, preconditioned 1e-3 / 1e3); '
                'the linearised system is rebuilt from the definition in long double and solved by Householder QR. '
                'Explorer S: every sequence of 3 (thorough 6) calls out of 16 (all/half of the points x index-based/aligned x '
                'plain find / setPreconditioner with scale 1, 0.05, 40 then find) on ONE estimator, every answer compared '
                'with a fresh estimator. non-trivial = non-zero rotation, perturbed data, non-identity correspondences or a non-default overload.',
        'assumptions': ['normal-equation accuracy bound 4 p eps kappa(J)^2 (|x|+|Y|/smax); systems with kappa(J)^2 >= 1e6 are outside the quantifier, systems that carry no digits in the scalar type (64 p eps kappa^2 > 0.05, e.g. float at scale 1e3) are counted in trivial_skipped',
                        'preconditioning = same isotropic scale on both sets, no translation, announced through setPreconditioner'],
        'tiers': {'quick': {'deadline': 400, 'case_timeout': 200}, 'thorough': {'deadline': 3000, 'case_timeout': 900}},
        'technique': 'bounded-exhaustive input/configuration lattice incl. every correspondence count, exhaustive call sequences and a deviation-bounded long script on one estimator (real code); the defining linear system rebuilt independently and solved by QR in long double, fresh-object differential oracle',
        'level_text': 'complete enumeration of the scene / motion / correspondence / overload lattice for all eight point '
                      'types; optimality (normal equations), shape of the returned matrix, invariances decided for every '
                      'case; independence of the call history decided for every sequence of calls up to the stated depth',
        'level_note': 'catalogue values only',
    },
    'C06': {
        'sources': ['src/transform/estimation/FindRigidTransformationByICP.cpp', 'src/transform/estimation/RansacRigidTransformationModel.cpp',
                    'src/transform/estimation/FindRigidTransformationBySVD.cpp', 'src/transform/estimation/FindRigidTransformationByLeastSquares.cpp',
                    'src/regression/ransac/Ransac.cpp', 'src/regression/ransac/RansacModel.cpp', 'src/regression/ransac/RansacIterations.cpp',
                    'src/regression/ransac/RansacRandomCorrespondences.cpp', 'src/regression/leastsquares/LeastSquares.cpp',
                    'src/pointset/KdTree.cpp', 'src/pointset/algorithms/NormalAndCurvatureEstimation.cpp',
                    'src/pointset/algorithms/PreconditionedPointSet.cpp', 'src/pointset/algorithms/PointSetPreconditioner.cpp',
                    'src/pointset/algorithms/Correspondence.cpp'],
        'harness': 'c06_icp.cpp',
        'flavour': 'plain',
        'level': 'exploration',
        'engine': 'lattice',
        'rule': 'full lattice displacement (tx, ty, theta) of the reference scan over the operating envelope (corners and zero '
                'included) x four 2D point types through a freshly constructed ICP; full lattice of synthetic correspondence '
                'sets (size x outlier fraction x outlier placement x outlier displacement x motion x eight point types x '
                'estimation mode) through a freshly constructed RANSAC model, each compared with the truth and with the '
                'outlier-free run. non-trivial = non-zero displacement (ICP), at least one outlier (RANSAC).',
        'assumptions': ['the sampling engine inside the RANSAC model is default-seeded per object, so a fresh estimator is a pure function of its inputs (replay determinism is checked by the runner)',
                        'the linearised point-to-plane RANSAC mode is only asked for rotations up to 1e-3 rad: its own model error is theta^2 x extent regardless of outliers'],
        'tiers': {'quick': {'deadline': 500, 'case_timeout': 60}, 'thorough': {'deadline': 3300, 'case_timeout': 60}},
        'technique': 'bounded-exhaustive input lattice enumeration on the real ICP / RANSAC pipeline, truth and outlier-free differential oracle',
        'level_text': 'complete enumeration of a displacement lattice that covers the whole operating envelope including its '
                      'corners, and of an outlier-configuration lattice, on freshly constructed estimators',
        'level_note': 'lattice values only; one scan',
    },
    'C19': {
        'sources': ['src/monitoring/OnlineAverage.cpp', 'src/monitoring/OnlineVariance.cpp', 'src/monitoring/RateMonitoring.cpp',
                    'src/diagnostics/CheckupRate.cpp', 'src/diagnostics/CheckupReliability.cpp', 'src/diagnostics/Diagnostic.cpp',
                    'src/diagnostics/DiagnosticReport.cpp', 'src/diagnostics/DiagnosticStatus.cpp'],
        'harness': 'c19_concurrency.cpp',
        'flavour': 'tsan',
        'extra_units': [('gcc', ['-O1', '-g', '-std=gnu11'], 'engine/sched/sched.c')],
        'level': 'model_checking',
        'engine': 'schedule',
        'rule': 'for each of 18 scenarios (2-4 real threads x 1-4 operations on one real object) every schedule with at most '
                'b preemptions (b = 2 quick, 3 thorough) is executed under a serialising scheduler whose scheduling points '
                'are the mutex and atomic operations of the unmodified library code; per schedule: ThreadSanitizer '
                'happens-before reports, deadlock, linearizability against the object itself run sequentially. '
                'evaluations = executions; states = distinct observed outcomes (result vectors) summed over scenarios; '
                'transitions = scheduling decisions taken; traces_validated_against_impl = executions (every explored '
                'trace is an implementation trace). non-trivial = schedule with at least one preemption. Plus a '
                'free-running ThreadSanitizer pass of the same thread bodies.',
        'assumptions': ['sequentially consistent interleavings only (no weak-memory reorderings of the atomic<double> accesses)',
                        'scheduling points at synchronisation operations only; unsynchronised accesses are covered by ThreadSanitizer happens-before analysis in every explored schedule and in the free-running pass',
                        'bounded harnesses (2-4 threads, 1-4 operations each) replace the 1e5-operation stress runs of the quantifier, which would be sampling'],
        'tiers': {'quick': {'deadline': 500, 'case_timeout': 400, 'jobs': 12}, 'thorough': {'deadline': 3300, 'case_timeout': 3000, 'jobs': 12}},
        'technique': 'preemption-bounded stateless model checking of the real threads (serialising scheduler hooked at mutex/atomic operations, DFS with prefix replay), ThreadSanitizer + linearizability oracle per schedule',
        'level_text': 'every schedule with <= 2 (thorough 3) preemptions of each scenario is executed on the real code; a data '
                      'race anywhere in such a schedule is reported by ThreadSanitizer, whose view of synchronisation is '
                      'only the library own mutexes and atomics; every recorded history is checked for linearizability by '
                      'brute force against the sequential object',
        'level_note': 'small closed harnesses; SC memory model; preemption bound as stated',
    },
}

ENGINES = [
    {'name': 'lattice', 'path': 'engine/vrun.hpp', 'serves_properties': [],
     'kind_free_text': 'bounded-exhaustive enumeration of a mixed-radix input/configuration lattice over the real code; '
                       'forked shards, per-case watchdog (crash/hang = violation), determinism re-run'},
    {'name': 'sequence', 'path': 'engine/vrun.hpp', 'serves_properties': [],
     'kind_free_text': 'explicit-state breadth-first search over operation sequences of the real object with a reference '
                       'model in lock-step; canonical product state hashed; to fixpoint where finite, else to stated depth; '
                       'exhaustive sequences without de-duplication; deviation-bounded long runs. The search loops live in '
                       'harness/cNN_*.cpp on top of the case runner engine/vrun.hpp'},
    {'name': 'schedule', 'path': 'engine/sched', 'serves_properties': [],
     'kind_free_text': 'preemption-bounded stateless exploration of real threads under a serialising scheduler hooked at '
                       'mutex/atomic operations, ThreadSanitizer + linearizability oracle per schedule'},
]

NOT_APPLICABLE = {}

