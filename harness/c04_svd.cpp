// C04 -- closed-form (SVD) rigid registration returns the proper rigid motion.
#include <romea_core_common/transform/estimation/FindRigidTransformationBySVD.hpp>
#include "vrun.hpp"
#include "regref.hpp"

const char* kProperty = "C04";
using namespace romea::core;
using regref::LD; using regref::V3; using regref::M3;

namespace {

template <class PT> PT mkp(const V3& a) { PT p = PT::Zero(); for (int i = 0; i < PointTraits<PT>::DIM; ++i) p[i] = (typename PT::Scalar)a[i]; if (PointTraits<PT>::SIZE > PointTraits<PT>::DIM) p[PointTraits<PT>::SIZE - 1] = 1; return p; }
template <class PT> V3 tov(const PT& p) { V3 v = V3::Zero(); for (int i = 0; i < PointTraits<PT>::DIM; ++i) v[i] = p[i]; return v; }

template <class PT> void run_set(vf::Ctx& c, const char* tname, const regref::Set& set, bool th, bool fewRotations = false) {
  using S = typename PT::Scalar; constexpr int DIM = PointTraits<PT>::DIM;
  using H = Eigen::Matrix<S, DIM + 1, DIM + 1>;
  LD eps = std::numeric_limits<S>::epsilon();
  const bool dbl = std::is_same<S, double>::value;
  auto rots = regref::rotations(DIM, th ? 2 : 1);
  if (fewRotations) { auto all = regref::rotations(DIM, 1); rots = {all[3], all[all.size() - 5]}; }   // the every-size sweep: two rotations
  std::vector<V3> trans = {V3(0, 0, 0), V3(0.3, -1.2, DIM == 3 ? 2 : 0), V3(1e3, -1e3, DIM == 3 ? 10 : 0)};
  size_t n = set.pts.size();
  PreconditionedPointSet<PT> keptS, keptT;   // long-lived preconditioned point sets
  FindRigidTransformationBySVD<PT> reusedEstimator, assignedEstimator;   // one estimator object serves every problem of this set as well; another one is overwritten by it each time
  for (size_t ir = 0; ir < rots.size(); ++ir) for (size_t it = 0; it < trans.size(); ++it) for (int sig = 0; sig < 3; ++sig) {
    LD sigma = sig == 0 ? 0 : sig == 1 ? 1e-3L : 0.1L;
    PointSet<PT> src, tgt;
    for (size_t i = 0; i < n; ++i) {
      V3 p(set.pts[i][0], set.pts[i][1], DIM == 3 ? set.pts[i][2] : 0);
      V3 q = rots[ir] * p + trans[it];
      if (sig) { auto d = regref::pattern((unsigned)(i * 3 + ir)); q += sigma * V3(d[0], d[1], DIM == 3 ? d[2] : 0); }
      src.push_back(mkp<PT>(p)); tgt.push_back(mkp<PT>(q));
    }
    for (int cm = 0; cm < 7; ++cm) {
      // correspondence modes: identity, reversed order, i -> 7i+3 mod n order, every other (subset), target stored permuted
      std::vector<Correspondence> cor; PointSet<PT> tgtUse = tgt;
      if (cm == 0) for (size_t i = 0; i < n; ++i) cor.emplace_back(i, i);
      else if (cm == 1) for (size_t i = n; i-- > 0;) cor.emplace_back(i, i);
      else if (cm == 2) { for (size_t i = 0; i < n; ++i) { size_t j = (7 * i + 3) % n; cor.emplace_back(j, j); } std::sort(cor.begin(), cor.end(), [](const Correspondence& a, const Correspondence& b) { return (a.sourcePointIndex * 2654435761u) % 1000003 < (b.sourcePointIndex * 2654435761u) % 1000003; }); cor.erase(std::unique(cor.begin(), cor.end(), [](const Correspondence& a, const Correspondence& b) { return a.sourcePointIndex == b.sourcePointIndex; }), cor.end()); if (cor.size() < 3) continue; }   // n a multiple of 7: the map 7i+3 mod n is not a bijection
      else if (cm == 3) { for (size_t i = 0; i < n; i += 2) cor.emplace_back(i, i); if (cor.size() < 3) continue; }
      else if (cm == 6) { if (n < 8) continue; for (size_t i = 0; i + 3 < n; ++i) cor.emplace_back(i, i); for (size_t i = 0; i < 3; ++i) cor.emplace_back(2 * i + 1, 2 * i + 1); }   // as many records as points, three pairs listed twice, the last three points unmatched
      else if (cm == 5) {   // target stored permuted AND only part of the matches, in shuffled order (the shape of ICP matching output)
        bool bij = true; { std::vector<int> seen(n, 0); for (size_t i = 0; i < n; ++i) if (seen[(i * 5 + 1) % n]++) bij = false; } if (!bij) continue;
        for (size_t i = 0; i < n; ++i) tgtUse[(i * 5 + 1) % n] = tgt[i];
        for (size_t i = 0; i < n; ++i) { size_t j = (3 * i + 2) % n; if (j % 3 != 1) cor.emplace_back(j, (j * 5 + 1) % n); }
        std::sort(cor.begin(), cor.end(), [](const Correspondence& a, const Correspondence& b) { return a.sourcePointIndex < b.sourcePointIndex; }); cor.erase(std::unique(cor.begin(), cor.end(), [](const Correspondence& a, const Correspondence& b) { return a.sourcePointIndex == b.sourcePointIndex; }), cor.end());
        std::reverse(cor.begin(), cor.end()); if (cor.size() < 3) continue;
      }
      else { for (size_t i = 0; i < n; ++i) tgtUse[(i * 5 + 1) % n] = tgt[i]; bool bij = true; { std::vector<int> seen(n, 0); for (size_t i = 0; i < n; ++i) if (seen[(i * 5 + 1) % n]++) bij = false; } if (!bij) continue; for (size_t i = 0; i < n; ++i) cor.emplace_back(i, (i * 5 + 1) % n); }
      // index-based overloads: points no correspondence refers to must not matter (poisoned with NaN); the distance and weight fields of the
      // correspondence records are not part of the problem (set to matcher-like values in two modes)
      PointSet<PT> srcIdx = src, tgtIdx = tgtUse;
      if (cm == 3 || cm == 5 || cm == 6) {
        std::vector<char> us(n, 0), ut(n, 0); for (auto& k : cor) { us[k.sourcePointIndex] = 1; ut[k.targetPointIndex] = 1; }
        for (size_t i = 0; i < n; ++i) { if (!us[i]) srcIdx[i].setConstant(std::numeric_limits<S>::quiet_NaN()); if (!ut[i]) tgtIdx[i].setConstant(std::numeric_limits<S>::quiet_NaN()); }
      }
      if (cm == 2 || cm == 5) for (auto& k : cor) { k.squareDistanceBetweenPoints = 0.25 + 0.01 * (double)k.sourcePointIndex; k.weight = 0.5 + 0.25 * (double)(k.sourcePointIndex % 3); }
      // reference (Horn) on the data as stored in S
      std::vector<V3> rs, rt; for (auto& k : cor) { rs.push_back(tov(src[k.sourcePointIndex])); rt.push_back(tov(tgtUse[k.targetPointIndex])); }
      regref::Rigid ref = regref::horn(rs, rt, DIM);
      LD Ms = 0, Mt = 0; for (auto& p : rs) Ms = std::max(Ms, p.norm()); for (auto& p : rt) Mt = std::max(Mt, p.norm());
      // collinear / numerically degenerate in this precision => outside the quantifier
      // rounding of the centred cross-covariance: n eps (Ms Et + Es Mt + Es Et) with E the extents about the means (two-pass
      // algorithm); for sets centred near the origin the cruder n eps Ms Mt is smaller and is kept (tolerances unchanged there)
      V3 cs = V3::Zero(), ct = V3::Zero(); for (auto& p : rs) cs += p; for (auto& p : rt) ct += p; cs /= (LD)rs.size(); ct /= (LD)rt.size();
      LD Es = 0, Et = 0; for (auto& p : rs) Es = std::max(Es, (p - cs).norm()); for (auto& p : rt) Et = std::max(Et, (p - ct).norm());
      LD boundR = 16 * eps * rs.size() * std::min<LD>(Ms * Mt, Ms * Et + Es * Mt + Es * Et) / std::max<LD>(ref.s_dm1_plus_d, 1e-300L);
      std::string params = vf::JO().str("type", tname).str("set", set.name).u("points", n).u("rotation", ir).u("translation", it).num("sigma", sigma).i("correspondence_mode", cm).done();
      if (sig == 0) {   // reference self-check on exact data (double data only: the stored points carry rounding of S)
        LD e = (ref.R - rots[ir]).norm();
        if (dbl && boundR < 1e-9L && e > 1e-9L + boundR) c.violation("harness.referenceSelfCheck", params, vf::JO().num("err", e).done());
      }
      LD limit = dbl ? 1e-9L : 1e-4L;
      if (!(boundR <= limit)) { c.trivial(); continue; }
      for (int ov = 0; ov < 4; ++ov) for (int sc = 0; sc < (ov >= 2 ? 4 : 1); ++sc) {
        if ((ov == 1 || ov == 3) && cm != 0) continue;   // aligned overloads: identity correspondence only
        S scale = 1;
        if (ov >= 2) { LD side = 0; for (int d = 0; d < DIM; ++d) { LD lo = 1e300, hi = -1e300; for (auto& p : rs) { lo = std::min(lo, p[d]); hi = std::max(hi, p[d]); } side = std::max(side, hi - lo); } scale = sc == 0 ? (S)1e-3 : sc == 1 ? (S)(1 / side) : sc == 2 ? (S)1 : (S)1e3; }
        FindRigidTransformationBySVD<PT> est;
        H got;
        auto run = [&](FindRigidTransformationBySVD<PT>& e) -> H {
          if (ov == 0) return e.find(srcIdx, tgtIdx, cor);
          if (ov == 1) return e.find(src, tgtUse);
          if (ov == 2) { PreconditionedPointSet<PT> ps(srcIdx, scale), pt(tgtIdx, scale); return e.find(ps, pt, cor); }
          PreconditionedPointSet<PT> ps(src, scale), pt(tgtUse, scale); return e.find(ps, pt);
        };
        got = run(est);
        {   // the long-lived estimator (every overload in turn), a copy of it, and another long-lived estimator overwritten by assignment
          if (ov >= 2) {   // long-lived preconditioned point sets: first filled with the same scale AND a translation, then re-filled scale-only
            using TV = typename PreconditionedPointSet<PT>::TranslationVector; TV tv = TV::Zero(); for (int d = 0; d < DIM; ++d) tv[d] = (S)(0.75 - 0.5 * d);
            keptS.compute(src, scale, tv); keptT.compute(tgtUse, scale, tv);
            keptS.compute(ov == 2 ? srcIdx : src, scale); keptT.compute(ov == 2 ? tgtIdx : tgtUse, scale);
            FindRigidTransformationBySVD<PT> e2; H viaKept = ov == 2 ? e2.find(keptS, keptT, cor) : e2.find(keptS, keptT);
            if ((viaKept - got).norm() != 0) c.violation("FindRigidTransformationBySVD.find.dependsOnHistory", vf::JO().str("type", tname).str("set", set.name).u("rotation", ir).u("translation", it).i("correspondence_mode", cm).i("overload", ov).str("history", "PreconditionedPointSet filled with scale and translation, then re-filled scale-only with the same scale").done(), vf::JO().num("kept_sets_vs_fresh", (double)(viaKept - got).norm()).done());
          }
          H again = run(reusedEstimator); FindRigidTransformationBySVD<PT> cp(reusedEstimator); H viaCopy = run(cp); assignedEstimator = reusedEstimator; H viaAssigned = run(assignedEstimator);
          if ((again - got).norm() != 0 || (viaCopy - got).norm() != 0 || (viaAssigned - got).norm() != 0)
            c.violation("FindRigidTransformationBySVD.find.dependsOnHistory", vf::JO().str("type", tname).str("set", set.name).u("rotation", ir).u("translation", it).i("correspondence_mode", cm).i("overload", ov).done(), vf::JO().num("reused_vs_fresh", (double)(again - got).norm()).num("copy_vs_fresh", (double)(viaCopy - got).norm()).num("assigned_vs_fresh", (double)(viaAssigned - got).norm()).done());
        }
        c.eval(); if (set.coplanar || sig || cm || ov) c.nontrivial();
        for (int i = 0; i < (DIM + 1) * (DIM + 1); ++i) c.obs((double)got(i / (DIM + 1), i % (DIM + 1)));
        std::string p2 = vf::JO().str("type", tname).str("set", set.name).u("points", n).u("rotation", ir).u("translation", it).num("sigma", sigma).i("correspondence_mode", cm).i("overload", ov).num("preconditioning_scale", scale).done();
        Eigen::Matrix<LD, DIM, DIM> R = got.template block<DIM, DIM>(0, 0).template cast<LD>();
        Eigen::Matrix<LD, DIM, 1> t = got.template block<DIM, 1>(0, DIM).template cast<LD>();
        bool lastRow = true; for (int j = 0; j < DIM; ++j) if (got(DIM, j) != 0) lastRow = false; if (got(DIM, DIM) != 1) lastRow = false;
        LD ortho = (R.transpose() * R - Eigen::Matrix<LD, DIM, DIM>::Identity()).norm(), det = R.determinant();
        LD sclErr = ov >= 2 ? 4 * eps : 0;   // the preconditioned path rescales the data and the translation once each
        if (!lastRow || ortho > 64 * eps || fabsl(det - 1) > 64 * eps) { c.violation("FindRigidTransformationBySVD.find.notProperRotation", p2, vf::JO().num("orthonormality_err", ortho).num("det", det).b("homogeneous_last_row", lastRow).done()); continue; }
        Eigen::Matrix<LD, DIM, DIM> Rref = ref.R.template block<DIM, DIM>(0, 0); Eigen::Matrix<LD, DIM, 1> tref = ref.t.template head<DIM>();
        LD eR = (R - Rref).norm(), eT = (t - tref).norm();
        LD tolR = std::max<LD>(4 * boundR, 64 * eps), tolT = tolR * (Ms + 1) + (16 * eps + sclErr) * (Mt + Ms + tref.norm()) * sqrtl((LD)rs.size());
        c.note_max(std::string("R_err_over_tol_") + tname, (double)(eR / tolR));
        if (!(eR <= tolR) || !(eT <= tolT)) { c.violation("FindRigidTransformationBySVD.find.notOptimalRigidMotion", p2, vf::JO().num("R_err", eR).num("R_tol", tolR).num("t_err", eT).num("t_tol", tolT).num("det", det).done()); continue; }
        if (sig == 0) {   // exact data: every source lands on its target, motion recovered to 1e-9 (1e-4 float) relative
          LD worst = 0; for (size_t i = 0; i < rs.size(); ++i) { Eigen::Matrix<LD, DIM, 1> m = R * rs[i].template head<DIM>() + t; worst = std::max(worst, (m - rt[i].template head<DIM>()).norm()); }
          LD hn = 1 + tref.norm() + Ms;   // t = mean_t - R mean_s: relative to the magnitude of the data as well
          if (worst > (limit + sclErr) * (Ms + Mt + 1) || eR > limit || eT > (limit + sclErr) * hn * 4) c.violation("FindRigidTransformationBySVD.find.exactDataNotRecovered", p2, vf::JO().num("worst_residual", worst).num("R_err", eR).num("t_err", eT).done());
        }
      }
      if (c.want_sample()) c.sample(params);
    }
  }
}

const char* kTypes[] = {"Vector2d", "Vector2f", "Homogeneous2d", "Homogeneous2f", "Vector3d", "Vector3f", "Homogeneous3d", "Homogeneous3f"};
std::vector<regref::Set> g2, g3;
void init() { if (g2.empty()) { g2 = regref::catalogue(2); g3 = regref::catalogue(3); } }

}  // namespace

const int kSizeBlocks = 10;   // every point count 3..500 in blocks of 50
uint64_t vf_ncases(const std::string& tier) { init(); return 4 * g2.size() + 4 * g3.size() + 8 * kSizeBlocks; }

template <class PT> void every_size(vf::Ctx& c, const char* tname, int dim, int block) {
  const regref::Set& full = (dim == 2 ? g2 : g3).back();   // "scattered 500 over 20 m"
  for (int n = std::max(3, 50 * block + 1); n <= std::min(500, 50 * (block + 1)); ++n) {
    regref::Set sub; sub.name = "first " + std::to_string(n) + " of " + full.name; sub.coplanar = false; sub.pts.assign(full.pts.begin(), full.pts.begin() + n);
    run_set<PT>(c, tname, sub, false, true);
  }
}

void vf_run(uint64_t idx, const std::string& tier, vf::Ctx& c) {
  init();
  if (idx >= 4 * g2.size() + 4 * g3.size()) { int k = (int)(idx - 4 * g2.size() - 4 * g3.size()), t = k / kSizeBlocks, b = k % kSizeBlocks;
    switch (t) { case 0: every_size<Eigen::Vector2d>(c, kTypes[0], 2, b); break; case 1: every_size<Eigen::Vector2f>(c, kTypes[1], 2, b); break; case 2: every_size<HomogeneousCoordinates2d>(c, kTypes[2], 2, b); break; case 3: every_size<HomogeneousCoordinates2f>(c, kTypes[3], 2, b); break;
      case 4: every_size<Eigen::Vector3d>(c, kTypes[4], 3, b); break; case 5: every_size<Eigen::Vector3f>(c, kTypes[5], 3, b); break; case 6: every_size<HomogeneousCoordinates3d>(c, kTypes[6], 3, b); break; default: every_size<HomogeneousCoordinates3f>(c, kTypes[7], 3, b); }
    return; }
  if (idx < 4 * g2.size()) { int t = idx / g2.size(); const auto& s = g2[idx % g2.size()];
    switch (t) { case 0: run_set<Eigen::Vector2d>(c, kTypes[0], s, tier == "thorough"); break; case 1: run_set<Eigen::Vector2f>(c, kTypes[1], s, tier == "thorough"); break; case 2: run_set<HomogeneousCoordinates2d>(c, kTypes[2], s, tier == "thorough"); break; default: run_set<HomogeneousCoordinates2f>(c, kTypes[3], s, tier == "thorough"); } }
  else { uint64_t r = idx - 4 * g2.size(); int t = r / g3.size(); const auto& s = g3[r % g3.size()];
    switch (t) { case 0: run_set<Eigen::Vector3d>(c, kTypes[4], s, tier == "thorough"); break; case 1: run_set<Eigen::Vector3f>(c, kTypes[5], s, tier == "thorough"); break; case 2: run_set<HomogeneousCoordinates3d>(c, kTypes[6], s, tier == "thorough"); break; default: run_set<HomogeneousCoordinates3f>(c, kTypes[7], s, tier == "thorough"); } }
}

std::string vf_case_params(uint64_t idx, const std::string& tier) { init(); if (idx >= 4 * g2.size() + 4 * g3.size()) { int k = (int)(idx - 4 * g2.size() - 4 * g3.size()); return vf::JO().u("case", idx).str("explorer", "every size").str("type", kTypes[k / kSizeBlocks]).i("block_of_50", k % kSizeBlocks).done(); } bool is2 = idx < 4 * g2.size(); uint64_t r = is2 ? idx : idx - 4 * g2.size(); const auto& g = is2 ? g2 : g3; return vf::JO().u("case", idx).str("type", kTypes[(is2 ? 0 : 4) + r / g.size()]).str("set", g[r % g.size()].name).done(); }

std::string vf_describe(const std::string& tier) {
  init(); vf::JO o; std::vector<std::string> a, b; for (auto& s : g2) a.push_back(s.name); for (auto& s : g3) b.push_back(s.name);
  o.strs("sets_2d", a).strs("sets_3d", b);
  o.str("every_size", "every point count from 3 to 500 (first n points of the scattered set), two rotations, all translations / perturbations / correspondence modes / overloads / scales, 8 point types");
  o.str("rotations", std::string("2D: {0,+-1e-6,+-0.1,+-pi/2,+-(pi-1e-6),pi} + 71 angles every 5 deg; 3D: 6 axes x {0,1e-6,0.1,pi/2,pi-1e-6,pi} + 8 axes x {1e-3,0.5,1,2,2.5,3,pi-1e-3,pi-1e-9}") + (tier == "thorough" ? "; plus 2D every 0.5 deg (720 angles) and 3D 24 Halton axes x 16 angles up to pi-1e-4" : "") + "; perturbed data on every rotation");
  o.str("translations", "0, (0.3,-1.2,2), (1e3,-1e3,10)");
  o.str("correspondences", "identity, reversed, shuffled order, every other (subset), target stored permuted, subset of a permuted target in reversed order, a list as long as the sets with three pairs listed twice and three points unmatched; in the subset modes the points no correspondence refers to are NaN; in two modes the records carry matcher-like distance and weight fields");
  o.str("overloads", "index-based and aligned, plain and preconditioned with scale {1e-3, 1/largest side, 1, 1e3}");
  o.str("perturbation", "deterministic Halton pattern, sigma {0, 1e-3, 0.1}");
  o.str("oracle", "proper rotation (64 eps); agreement with Horn's quaternion (3D) / closed-form (2D) solution in long double within max(64 eps n min(Ms Mt, Ms Et + Es Mt + Es Et)/(s_{d-1}+s_d), 64 eps) (M largest norms, E largest distances from the means); exact data: residuals and motion within 1e-9 (float 1e-4) relative; cases whose conditioning bound exceeds that are outside the quantifier (collinear / unresolvable in the scalar type) and counted trivial");
  return o.done();
}

VF_MAIN()
