// C13 -- GridIndexMapping: every in-range point maps to an in-bounds cell containing it.
// Bounded-exhaustive lattice over (scalar type, DIM, resolution, per-axis bound pair, constructor form, point).
#include <romea_core_common/containers/grid/GridIndexMapping.hpp>
#include "vrun.hpp"
#include <limits>

const char* kProperty = "C13";
using namespace romea::core;

namespace {

const double kRes[] = {1e-3, 0.01, 0.05, 0.1, 0.2, 0.25, 0.3, 0.5, 0.7, 1, 2.5, 3, 10};
const int kNRes = 13;

struct Pair { double lo, hi; };

// bound values (i+f)*res and absolute specials, then all ordered pairs lo<=hi
std::vector<Pair> pairs(double res, bool thorough) {
  std::vector<double> v;
  std::vector<int> I = thorough ? std::vector<int>{-6, -5, -4, -3, -2, -1, 0, 1, 2, 3, 4, 5, 6} : std::vector<int>{-6, -1, 0, 1, 5};
  const double F[] = {0, 0.25, -0.25, 0.5};
  for (int i : I) for (double f : F) v.push_back((i + f) * res);
  const double S[] = {-1000, 1000, -999.9995, 512, 513, -512.3, 1.5, -1.5, -0.7, 2.25, 37.5, -64, 999.75};
  for (double s : S) v.push_back(s);
  std::sort(v.begin(), v.end());
  v.erase(std::unique(v.begin(), v.end()), v.end());
  std::vector<Pair> p;
  for (size_t a = 0; a < v.size(); ++a)
    for (size_t b = a; b < v.size(); ++b) {
      if (v[a] < -1000 || v[b] > 1000) continue;
      p.push_back({v[a], v[b]});
    }
  return p;
}

template <class S> S ulp(S x) { x = std::fabs(x); return std::nextafter(x, std::numeric_limits<S>::infinity()) - x; }

template <class S, size_t DIM>
void run_grid(vf::Ctx& c, const char* tname, double res_d, const std::vector<Pair>& P, size_t a, int form, bool thorough) {
  using G = GridIndexMapping<S, DIM>;
  using Pt = typename G::PointType;
  using Ix = typename G::CellIndexes;
  S res = (S)res_d;
  Pt lo, hi;
  size_t np = P.size();
  for (size_t d = 0; d < DIM; ++d) {
    size_t k = (d == 0) ? a : (d == 1 ? (a * 7 + 3) % np : (a * 11 + 5) % np);
    lo[d] = (S)P[k].lo; hi[d] = (S)P[k].hi;
    if (form == 1) { S r = std::max(std::fabs(lo[d]), std::fabs(hi[d])); if (d) r = std::max(std::fabs(lo[0]), std::fabs(hi[0])); lo[d] = -r; hi[d] = r; }
    if (form == 2 && d) { S shift = (S)((d == 1 ? 4 : -3) * (double)res); lo[d] = lo[0] + shift; hi[d] = hi[0] + shift; if (lo[d] < (S)-1000 || hi[d] > (S)1000) { lo[d] = lo[0]; hi[d] = hi[0]; } }   // twin axes: same width, a few cells apart
  }
  // quantifier: at most 1e7 cells
  long double cells = 1;
  for (size_t d = 0; d < DIM; ++d) cells *= ((long double)hi[d] - lo[d]) / res + 2;
  if (cells > 1e7L) { c.trivial(); return; }
  G g0 = (form == 1) ? G(hi[0], res) : G(Interval<S, DIM>(lo, hi), res);   // form 0 and 2: general interval form
  // the mapping under test is, in turn, the constructed object, a copy of it, or a default-constructed object assigned from it
  G gcopy(g0); G gassigned; gassigned = g0;
  G& g = (a % 3 == 0) ? g0 : (a % 3 == 1) ? gcopy : gassigned;
  Ix N = g.getNumberOfCellsAlongAxes();
  auto params = [&](const Pt* p) {
    vf::JO o; o.str("type", tname).i("dim", DIM).num("res", res).i("form", form);
    std::vector<long double> l(DIM), h(DIM), n(DIM);
    for (size_t d = 0; d < DIM; ++d) { l[d] = lo[d]; h[d] = hi[d]; n[d] = (long double)N[d]; }
    o.vec("lo", l).vec("hi", h).vec("ncells", n);
    if (p) { std::vector<long double> q(DIM); for (size_t d = 0; d < DIM; ++d) q[d] = (*p)[d]; o.vec("point", q); }
    return o.done();
  };
  for (size_t d = 0; d < DIM; ++d) { c.obs((uint64_t)N[d]); }
  // structural checks per axis
  std::vector<std::vector<S>> cand(DIM);
  S tolv[3];
  for (size_t d = 0; d < DIM; ++d) {
    S maxB = std::max(std::fabs(lo[d]), std::fabs(hi[d]));
    S ext = hi[d] - lo[d];
    S tol = 3 * ulp<S>(maxB + res) + 4 * std::numeric_limits<S>::epsilon() * (ext + res);
    tolv[d] = tol;
    c.note_max(std::string("tol_over_res_") + tname, (double)(tol / res));
    const std::vector<S>& cen = g.getCellCentersPositionAlong(d);
    c.eval();
    if (cen.size() != N[d] || N[d] == 0 || N[d] > (size_t)((long double)ext / res + 3)) {
      c.violation("GridIndexMapping.numberOfCells", params(nullptr), vf::JO().i("axis", d).u("table", cen.size()).u("n", N[d]).done());
      return;
    }
    // first/last cell cover the bounds
    if ((long double)cen[0] - (long double)res / 2 > (long double)lo[d] + tol ||
        (long double)cen[N[d] - 1] + (long double)res / 2 < (long double)hi[d] - tol)
      c.violation("GridIndexMapping.coverBounds", params(nullptr),
                  vf::JO().i("axis", d).num("first_centre", cen[0]).num("last_centre", cen[N[d] - 1]).done());
    // spacing
    for (size_t n = 0; n + 1 < N[d]; ++n) {
      long double sp = (long double)cen[n + 1] - (long double)cen[n];
      if (fabsl(sp - (long double)res) > 2 * (long double)ulp<S>(2 * (maxB + res))) {   // a centre is origin + (n+0.5) res: the product is rounded at the magnitude of the extent (up to 2 maxB), which can lie one binade above the centre itself
        c.violation("GridIndexMapping.centreSpacing", params(nullptr), vf::JO().i("axis", d).u("n", n).num("spacing", sp).done());
        break;
      }
    }
    // candidate coordinates along this axis
    std::vector<S>& L = cand[d];
    auto push = [&](S x) { if (x >= lo[d] && x <= hi[d]) L.push_back(x); };
    push(lo[d]); push(hi[d]);
    push(std::nextafter(lo[d], hi[d])); push(std::nextafter(hi[d], lo[d]));
    push((S)(((long double)lo[d] + hi[d]) / 2));
    size_t stride = (N[d] <= 4000 || thorough) ? 1 : (N[d] + 999) / 1000;
    if (thorough && N[d] > 40000) stride = (N[d] + 9999) / 10000;
    for (size_t n = 0; n < N[d]; ++n) {
      if (!(n % stride == 0 || n < 50 || n + 50 >= N[d])) continue;
      S ce = cen[n];
      push(ce); push(ce - res / 4); push(ce + res / 4);
      S b0 = ce - res / 2, b1 = ce + res / 2;
      push(b0); push(b1);
      push(std::nextafter(b0, (S)-2000)); push(std::nextafter(b0, (S)2000));
      push(std::nextafter(b1, (S)-2000)); push(std::nextafter(b1, (S)2000));
    }
    std::sort(L.begin(), L.end());
    L.erase(std::unique(L.begin(), L.end()), L.end());
  }
  auto check_point = [&](const Pt& p) {
    c.eval();
    Ix ix = g.computeCellIndexes(p);
    bool nontriv = false;
    for (size_t d = 0; d < DIM; ++d) {
      c.obs((uint64_t)ix[d]);
      if (!(ix[d] < N[d])) {
        c.violation("GridIndexMapping.computeCellIndexes.outOfRange", params(&p), vf::JO().i("axis", d).u("index", ix[d]).u("n", N[d]).done());
        return;
      }
    }
    Pt ce = g.computeCellCenterPosition(ix);
    for (size_t d = 0; d < DIM; ++d) {
      long double dist = fabsl((long double)p[d] - (long double)ce[d]);
      if (dist > (long double)res / 2 + tolv[d]) {
        c.violation("GridIndexMapping.computeCellIndexes.wrongCell", params(&p),
                    vf::JO().i("axis", d).u("index", ix[d]).num("centre", ce[d]).num("dist_over_res", dist / res).done());
        return;
      }
      if (dist < 1e-6L * res || fabsl(dist - (long double)res / 2) < 1e-6L * res || p[d] == lo[d] || p[d] == hi[d]) nontriv = true;
      if (ce[d] != g.getCellCentersPositionAlong(d)[ix[d]])
        c.violation("GridIndexMapping.computeCellCenterPosition", params(&p), vf::JO().i("axis", d).done());
    }
    if (nontriv) c.nontrivial();
  };
  // per-axis sweep, other axes rotate through their own candidates
  for (size_t d = 0; d < DIM; ++d) {
    for (size_t j = 0; j < cand[d].size(); ++j) {
      Pt p;
      for (size_t e = 0; e < DIM; ++e) p[e] = (e == d) ? cand[d][j] : cand[e][(j * 31 + 7 * e + 1) % cand[e].size()];
      check_point(p);
    }
  }
  // corners / edge values product
  {
    std::vector<std::vector<S>> cv(DIM);
    for (size_t d = 0; d < DIM; ++d) {
      cv[d] = {lo[d], hi[d], std::nextafter(lo[d], hi[d]), std::nextafter(hi[d], lo[d])};
      const std::vector<S>& cen = g.getCellCentersPositionAlong(d);
      S b = cen[N[d] / 2] + res / 2; if (b >= lo[d] && b <= hi[d]) cv[d].push_back(b);
    }
    vf::Radix r; for (size_t d = 0; d < DIM; ++d) r.dims.push_back(cv[d].size());
    for (uint64_t k = 0; k < r.total(); ++k) {
      auto t = r.decode(k); Pt p; for (size_t d = 0; d < DIM; ++d) p[d] = cv[d][t[d]];
      check_point(p);
    }
  }
  // centres map back to their own index
  for (size_t d = 0; d < DIM; ++d) {
    const std::vector<S>& cen = g.getCellCentersPositionAlong(d);
    size_t stride = (N[d] <= 4000 || thorough) ? 1 : (N[d] + 999) / 1000;
    for (size_t n = 0; n < N[d]; n += ((n < 50 || n + 51 >= N[d]) ? 1 : stride)) {
      Pt p; Ix want;
      for (size_t e = 0; e < DIM; ++e) {
        size_t m = (e == d) ? n : (n * 13 + e) % N[e];
        p[e] = g.getCellCentersPositionAlong(e)[m]; want[e] = m;
      }
      c.eval(); c.nontrivial();
      Ix ix = g.computeCellIndexes(p);
      if (ix != want) {
        c.violation("GridIndexMapping.centreMapsBack", params(&p), vf::JO().i("axis", d).u("n", n).u("got", ix[d]).done());
        break;
      }
    }
  }
  if (c.want_sample()) c.sample(params(nullptr));
  // symmetric form must equal the interval form on (-R,R)
  if (form == 1) {
    Pt l2 = Pt::Constant(-hi[0]), h2 = Pt::Constant(hi[0]);
    G g2(Interval<S, DIM>(l2, h2), res);
    c.eval();
    bool same = g2.getNumberOfCellsAlongAxes() == N;
    for (size_t d = 0; same && d < DIM; ++d) same = g2.getCellCentersPositionAlong(d) == g.getCellCentersPositionAlong(d);
    if (!same) c.violation("GridIndexMapping.symmetricForm", params(nullptr), "{}");
  }
}

}  // namespace

static std::vector<Pair> g_pairs[2][kNRes];
static const std::vector<Pair>& get_pairs(int r, bool th) {
  auto& v = g_pairs[th][r];
  if (v.empty()) v = pairs(kRes[r], th);
  return v;
}

// case = (type 0..3) x res x form(0: interval, 1: symmetric) x pair index (max over res of pair count is constant)

// ---- flat axes: lower == upper on one axis (a slice), the value sweeping every multiple and half-multiple of the resolution ----------------
template <class S, size_t DIM> void flat_axes(vf::Ctx& c, const char* tname, double res_d) {
  using G = GridIndexMapping<S, DIM>; using Pt = typename G::PointType;
  S res = (S)res_d;
  int kmax = (int)std::min(4000.0, 1000.0 / res_d);
  for (int k = -kmax; k <= kmax; ++k) for (int half = 0; half < 2; ++half) for (size_t flatAxis = 0; flatAxis < DIM; ++flatAxis) {
    S v = (S)((k + 0.5 * half) * res_d);
    if (std::fabs(v) > 1000) continue;
    Pt lo, hi, p;
    for (size_t d = 0; d < DIM; ++d) { lo[d] = d == flatAxis ? v : (S)-1; hi[d] = d == flatAxis ? v : (S)1; p[d] = d == flatAxis ? v : (S)0.25; }
    long double cells = 1; for (size_t d = 0; d < DIM; ++d) cells *= ((long double)hi[d] - lo[d]) / res + 2;
    if (cells > 1e7L) { c.trivial(); continue; }
    G g(Interval<S, DIM>(lo, hi), res);
    auto N = g.getNumberOfCellsAlongAxes(); auto ix = g.computeCellIndexes(p);
    c.eval(); c.nontrivial(); c.obs((uint64_t)ix[flatAxis]);
    bool ok = true; for (size_t d = 0; d < DIM; ++d) if (!(ix[d] < N[d])) ok = false;
    if (ok) { auto ce = g.computeCellCenterPosition(ix); if (std::fabs((long double)ce[flatAxis] - v) > (long double)res / 2 + 4 * (long double)ulp<S>(std::fabs(v) + res)) ok = false; }
    if (!ok) { c.violation("GridIndexMapping.computeCellIndexes.outOfRange", vf::JO().str("type", tname).i("dim", DIM).num("res", res).str("form", "flat axis").i("flat_axis", flatAxis).num("value", v).done(), vf::JO().u("index", ix[flatAxis]).u("cells", N[flatAxis]).done()); return; }
  }
}

uint64_t vf_ncases(const std::string& tier) {
  bool th = tier == "thorough";
  return 4ull * kNRes * 3 * get_pairs(0, th).size() + 4ull * kNRes;
}

void vf_run(uint64_t idx, const std::string& tier, vf::Ctx& c) {
  bool th = tier == "thorough";
  size_t np = get_pairs(0, th).size();
  if (idx >= 4ull * kNRes * 3 * np) { uint64_t k = idx - 4ull * kNRes * 3 * np; int t = (int)(k / kNRes); double r = kRes[k % kNRes];
    switch (t) { case 0: flat_axes<double, 2>(c, "double2", r); break; case 1: flat_axes<double, 3>(c, "double3", r); break; case 2: flat_axes<float, 2>(c, "float2", r); break; default: flat_axes<float, 3>(c, "float3", r); }
    return; }
  vf::Radix r; r.dims = {4, (uint64_t)kNRes, 3, np};
  auto t = r.decode(idx);
  const auto& P = get_pairs((int)t[1], th);
  size_t a = t[3] % P.size();
  if (t[2] == 1) {   // symmetric form depends on max|bound| only: enumerate distinct radii once
    double R = std::max(std::fabs(P[a].lo), std::fabs(P[a].hi));
    for (size_t b = 0; b < a; ++b) if (std::max(std::fabs(P[b].lo), std::fabs(P[b].hi)) == R) { c.trivial(); return; }
    if (R == 0) { c.trivial(); return; }
  }
  switch (t[0]) {
    case 0: run_grid<double, 2>(c, "double2", kRes[t[1]], P, a, (int)t[2], th); break;
    case 1: run_grid<double, 3>(c, "double3", kRes[t[1]], P, a, (int)t[2], th); break;
    case 2: run_grid<float, 2>(c, "float2", kRes[t[1]], P, a, (int)t[2], th); break;
    case 3: run_grid<float, 3>(c, "float3", kRes[t[1]], P, a, (int)t[2], th); break;
  }
}

std::string vf_describe(const std::string& tier) {
  bool th = tier == "thorough";
  vf::JO o;
  o.vec("resolutions", std::vector<double>(kRes, kRes + kNRes));
  o.u("bound_pairs_per_resolution", get_pairs(0, th).size());
  o.str("flat_axes", "one axis with lower == upper = (k + h/2) res for every k in [-min(4000, 1000/res), ...] and h in {0,1}, each axis in turn flat, all resolutions, float and double, 2D and 3D: index in bounds and the cell centre within half a resolution");
  o.str("forms", "symmetric maximal-range form; general interval form with independent bound pairs per axis; general interval form with twin axes (same width, lower bounds 4 / -3 cells apart)");
  o.str("bounds", "(i+f)*res, i in [-6,6] (quick: -6,-1,0,1,5), f in {0,+-1/4,1/2}; absolute +-1000,-999.9995,512,-512.3,+-1.5,-0.7,2.25,37.5,-64,999.75");
  o.str("types", "double/float x 2D/3D; interval and symmetric constructor");
  o.str("tolerance", "res/2 + 3 ulp(max|bound|+res) + 4 eps (extent+res)");
  return o.done();
}

VF_MAIN()
