// C06 -- ICP + RANSAC recovers every small displacement of the reference scan; RANSAC is not influenced by gross outliers.
#include <romea_core_common/transform/estimation/FindRigidTransformationByICP.hpp>
#include <romea_core_common/transform/estimation/RansacRigidTransformationModel.hpp>
#include <romea_core_common/regression/ransac/Ransac.hpp>
#include "vrun.hpp"
#include "regref.hpp"

const char* kProperty = "C06";
using namespace romea::core;
using regref::LD;

namespace {

std::vector<std::array<double, 2>> g_scan;
void load_scan() {
  if (!g_scan.empty()) return;
  const char* repo = getenv("VERIF_REPO"); std::string path = std::string(repo ? repo : "/repo") + "/test/data/scan2d.txt";
  std::ifstream f(path); double x, y;
  while (f >> x >> y) g_scan.push_back({x, y});     // 702 points (the test helper duplicates the last line; not done here)
  if (g_scan.empty()) { fprintf(stderr, "cannot read %s\n", path.c_str()); abort(); }
}

template <class PT> PT mk2(double x, double y, double z = 0) { PT p = PT::Zero(); p[0] = (typename PT::Scalar)x; p[1] = (typename PT::Scalar)y; if (PointTraits<PT>::DIM == 3) p[2] = (typename PT::Scalar)z; if (PointTraits<PT>::SIZE > PointTraits<PT>::DIM) p[PointTraits<PT>::SIZE - 1] = 1; return p; }

// ---- ICP on the reference scan --------------------------------------------------------------------------------------
template <class PT> void icp_case(vf::Ctx& c, const char* tname, double tx, double ty, double th) {
  using S = typename PT::Scalar; using H = Eigen::Matrix<S, 3, 3>;
  load_scan();
  PointSet<PT> src, tgt;
  double cs = std::cos(th), sn = std::sin(th);
  for (auto& p : g_scan) { src.push_back(mk2<PT>(p[0], p[1])); tgt.push_back(mk2<PT>(cs * p[0] - sn * p[1] + tx, sn * p[0] + cs * p[1] + ty)); }
  FindRigidTransformationByICP<PT> icp((S)0.2);      // freshly constructed, default point-to-plane mode, identity guess
  bool found = icp.find(src, tgt, H::Identity());
  H got = icp.getTransformation();
  Eigen::Matrix<LD, 3, 3> T; T << cs, -sn, tx, sn, cs, ty, 0, 0, 1;
  LD err = (got.template cast<LD>() - T).norm();
  c.eval(); if (tx != 0 || ty != 0 || th != 0) c.nontrivial();
  c.obs((uint64_t)found); for (int i = 0; i < 9; ++i) c.obs((double)got(i / 3, i % 3));
  c.note_max(std::string("icp_frobenius_err_") + tname, (double)err);
  std::string params = vf::JO().str("type", tname).num("tx", tx).num("ty", ty).num("theta", th).done();
  if (!found || !(err <= 0.015L)) c.violation("FindRigidTransformationByICP.find", params, vf::JO().b("found", found).num("frobenius_err", err).done());
  if (c.want_sample()) c.sample(params);
}

// ---- RANSAC with gross outliers -------------------------------------------------------------------------------------
template <class PT> void ransac_case(vf::Ctx& c, const char* tname, int n, int outlierPct, int placement, double dispSigma, int motion, bool planeMode, int variant = 0, bool coherent = false, double sigma = 0.05) {
  using S = typename PT::Scalar; constexpr int DIM = PointTraits<PT>::DIM;
  using H = Eigen::Matrix<S, DIM + 1, DIM + 1>;
  // sigma is the configured noise level handed to Ransac; the data scale with it (inliers 0.3 sigma, outliers dispSigma x sigma)
  // motions up to 0.5 m / 0.2 rad
  const double motions[6][3] = {{0, 0, 0}, {0.5, -0.3, 0.2}, {-0.2, 0.5, -0.2}, {0.1, 0.1, 0.05}, {-0.5, -0.5, 0.1}, {0.3, 0, -0.12}};
  double tx = motions[motion][0], ty = motions[motion][1], th = planeMode ? motions[motion][2] * 5e-3 : motions[motion][2];
  regref::M3 R; { LD a = th; regref::V3 ax = DIM == 2 ? regref::V3(0, 0, 1) : regref::V3(1, 2, 2).normalized(); regref::M3 K; K << 0, -ax[2], ax[1], ax[2], 0, -ax[0], -ax[1], ax[0], 0; R = regref::M3::Identity() + sinl(a) * K + (1 - cosl(a)) * K * K; }
  regref::V3 t(tx, ty, DIM == 3 ? 0.25 * tx : 0);
  int nOut = n * outlierPct / 100;
  std::vector<bool> isOut(n, false);
  for (int k = 0; k < nOut; ++k) { int i = placement == 0 ? k : placement == 1 ? n - 1 - k : (int)((long)k * n / std::max(1, nOut)); isOut[i] = true; }
  PointSet<PT> src, tgt, srcIn, tgtIn; NormalSet<PT> nrm, nrmIn;
  for (int i = 0; i < n; ++i) {
    auto h = regref::pattern(i + 1 + 1000 * variant); regref::V3 p(10 * h[0], 10 * h[1], DIM == 3 ? 10 * h[2] : 0);
    regref::V3 q = R * p + t; auto e = regref::pattern(i + 1001); q += 0.3 * sigma * regref::V3(e[0], e[1], DIM == 3 ? e[2] : 0) / sqrtl((LD)DIM);
    if (isOut[i]) { auto d = regref::pattern(coherent ? 5003 + variant : i + 5003); /* coherent: every outlier displaced by the same offset (a second rigid object) */ regref::V3 dir(d[0], d[1], DIM == 3 ? d[2] : 0); if (dir.norm() < 1e-3) dir = regref::V3(1, 0, 0); dir.normalize(); q += dispSigma * sigma * dir; }
    auto g = regref::pattern(i + 9001); regref::V3 nn(g[0], g[1], DIM == 3 ? g[2] : 0); if (nn.norm() < 1e-3) nn = regref::V3(0, 1, 0); nn.normalize();
    PT ps = mk2<PT>((double)p[0], (double)p[1], (double)p[2]), pt = mk2<PT>((double)q[0], (double)q[1], (double)q[2]), pn = mk2<PT>((double)nn[0], (double)nn[1], (double)nn[2]); if (PointTraits<PT>::SIZE > DIM) pn[PointTraits<PT>::SIZE - 1] = 0;
    src.push_back(ps); tgt.push_back(pt); nrm.push_back(pn);
    if (!isOut[i]) { srcIn.push_back(ps); tgtIn.push_back(pt); nrmIn.push_back(pn); }
  }
  // on every other data set the target (and its normals) is stored in another order, so that source index != target index, and the records
  // carry the squared matching distance as a matcher would store it
  const bool asMatcher = (variant + placement + motion + outlierPct / 10) % 2 == 1;
  auto run = [&](const PointSet<PT>& s, const PointSet<PT>& g0, const NormalSet<PT>& nn0, bool& ok, double& rmse) {
    std::vector<Correspondence> cor; PointSet<PT> g = g0; NormalSet<PT> nn = nn0; size_t m = s.size();
    if (asMatcher && m % 7 != 0) { for (size_t i = 0; i < m; ++i) { size_t j = (7 * i + 3) % m; g[j] = g0[i]; nn[j] = nn0[i]; double d2 = 0; for (int d = 0; d < DIM; ++d) d2 += (double)(g0[i][d] - s[i][d]) * (double)(g0[i][d] - s[i][d]); cor.emplace_back(i, j, d2); } }
    else for (size_t i = 0; i < m; ++i) cor.emplace_back(i, i);
    RansacRigidTransformationModel<PT> model;        // freshly constructed
    model.loadPointSets(&s, &g); model.loadCorrespondences(&cor, s.size()); model.loadTargetNormalSet(planeMode ? &nn : nullptr);
    Ransac ransac(&model, sigma);
    ok = ransac.estimateModel(); rmse = model.getRootMeanSquareError();
    return H(model.getTransformation());
  };
  bool ok1, ok2; double r1, r2;
  H h1 = run(src, tgt, nrm, ok1, r1);
  H h2 = run(srcIn, tgtIn, nrmIn, ok2, r2);
  Eigen::Matrix<LD, DIM + 1, DIM + 1> T = Eigen::Matrix<LD, DIM + 1, DIM + 1>::Identity(); T.template block<DIM, DIM>(0, 0) = R.template block<DIM, DIM>(0, 0); for (int d = 0; d < DIM; ++d) T(d, DIM) = t[d];
  LD e1 = (h1.template cast<LD>() - T).norm(), e12 = (h1 - h2).template cast<LD>().norm();
  c.eval(); if (nOut) c.nontrivial();
  c.obs((uint64_t)ok1); c.obs(r1); for (int i = 0; i < (DIM + 1) * (DIM + 1); ++i) c.obs((double)h1(i / (DIM + 1), i % (DIM + 1)));
  c.note_max(std::string("ransac_frobenius_err_") + tname, (double)e1); c.note_max(std::string("ransac_outlier_influence_") + tname, (double)e12);
  std::string params = vf::JO().str("type", tname).str("mode", planeMode ? "point-to-plane" : "closed-form").i("set_variant", variant).b("coherent_outliers", coherent).i("pairs", n).i("outlier_percent", outlierPct).str("outlier_placement", placement == 0 ? "first" : placement == 1 ? "last" : "interleaved").num("outlier_displacement_sigma", dispSigma).num("sigma", sigma).num("tx", tx).num("ty", ty).num("theta", th).done();
  if (!ok1 || !(e1 <= 0.015L) || !(r1 < sigma) || !(e12 <= 0.015L))
    c.violation("Ransac.estimateModel.rigidTransformation", params, vf::JO().b("estimated", ok1).num("frobenius_err_vs_truth", e1).num("rmse", r1).num("sigma", sigma).num("difference_vs_outlier_free_run", e12).b("outlier_free_estimated", ok2).done());
  if (c.want_sample()) c.sample(params);
}

struct Case { int kind; int type; double a, b, cc; int n, pct, place, motion; double disp; bool plane; int variant = 0; bool coherent = false; double sigma = 0.05; };
std::vector<Case> g_cases[2];
const char* kT2[] = {"Vector2d", "Homogeneous2d", "Vector2f", "Homogeneous2f"};
const char* kT3[] = {"Vector3d", "Homogeneous3d", "Vector3f", "Homogeneous3f"};

const std::vector<Case>& cases(bool th) {
  auto& v = g_cases[th];
  if (!v.empty()) return v;
  int nt = th ? 41 : 21, nr = th ? 21 : 5;
  for (int t = 0; t < 4; ++t) for (int i = 0; i < nt; ++i) for (int j = 0; j < nt; ++j) for (int k = 0; k < nr; ++k)
    v.push_back({0, t, -0.2 + 0.4 * i / (nt - 1), -0.2 + 0.4 * j / (nt - 1), -0.05 + 0.1 * k / (nr - 1), 0, 0, 0, 0, 0, false});
  // thorough: the eight corners of the envelope on a fine lattice (step 2 mm / 1 mrad): the boundary of the region where the estimator still converges
  if (th) for (int t = 0; t < 4; ++t) for (int sx : {1, -1}) for (int sy : {1, -1}) for (int sr : {1, -1}) for (int i = 0; i <= 25; ++i) for (int j = 0; j <= 25; ++j) for (int k = 0; k <= 10; ++k)
    v.push_back({0, t, sx * (0.15 + 0.002 * i), sy * (0.15 + 0.002 * j), sr * (0.04 + 0.001 * k), 0, 0, 0, 0, 0, false});
  for (int t = 0; t < 8; ++t) for (int n : {40, 100, 400}) for (int pct : {0, 10, 20, 30}) for (int place = 0; place < (pct ? 3 : 1); ++place) for (double disp : {10.5, 50.0}) for (int m = 0; m < 6; ++m) {
    if (!pct && disp != 10.5) continue;
    if (!th && (t % 4) >= 2 && (m % 2)) continue;   // float types: half of the motions in the quick tier
    v.push_back({1, t, 0, 0, 0, n, pct, place, m, disp, false});
    if (m < 3 && (th || n == 100)) v.push_back({1, t, 0, 0, 0, n, pct, place, m, disp, true});
  }
  // the configured noise level is a dimension of its own: the inlier gate (3 sigma) and the acceptance test (rmse < sigma) are the only places
  // where it enters, and a gate in the wrong unit coincides with the right one at a single sigma
  for (double sg : {0.01, 0.02, 0.1, 0.2}) for (int t = 0; t < 8; ++t) for (int pct : {10, 20, 30}) for (int place = 0; place < 3; ++place) for (double disp : {10.5, 13.0, 50.0}) for (int m = 0; m < 6; ++m) {
    if (!th && ((t % 4) >= 2 || place == 1) && (m % 2)) continue;
    Case k{1, t, 0, 0, 0, 100, pct, place, m, disp, false}; k.sigma = sg; v.push_back(k);
  }
  // coherent outliers (one common displacement: a second, smaller consensus) over a lattice of data sets
  for (int t : {0, 4}) for (int n : {100, 163, 232, 355, 390}) for (int pct : {20, 30}) for (int var = 0; var < (th ? 120 : 40); ++var) {
    Case k{1, t, 0, 0, 0, n, pct, 2, var % 6, 15.0, false}; k.variant = var; k.coherent = true; v.push_back(k);
  }
  return v;
}

}  // namespace

uint64_t vf_ncases(const std::string& tier) { return cases(tier == "thorough").size(); }

void vf_run(uint64_t idx, const std::string& tier, vf::Ctx& c) {
  const Case& k = cases(tier == "thorough")[idx];
  if (k.kind == 0) {
    switch (k.type) { case 0: icp_case<Eigen::Vector2d>(c, kT2[0], k.a, k.b, k.cc); break; case 1: icp_case<HomogeneousCoordinates2d>(c, kT2[1], k.a, k.b, k.cc); break; case 2: icp_case<Eigen::Vector2f>(c, kT2[2], k.a, k.b, k.cc); break; default: icp_case<HomogeneousCoordinates2f>(c, kT2[3], k.a, k.b, k.cc); }
  } else {
    switch (k.type) {
      case 0: ransac_case<Eigen::Vector2d>(c, kT2[0], k.n, k.pct, k.place, k.disp, k.motion, k.plane, k.variant, k.coherent, k.sigma); break; case 1: ransac_case<HomogeneousCoordinates2d>(c, kT2[1], k.n, k.pct, k.place, k.disp, k.motion, k.plane, k.variant, k.coherent, k.sigma); break;
      case 2: ransac_case<Eigen::Vector2f>(c, kT2[2], k.n, k.pct, k.place, k.disp, k.motion, k.plane, k.variant, k.coherent, k.sigma); break; case 3: ransac_case<HomogeneousCoordinates2f>(c, kT2[3], k.n, k.pct, k.place, k.disp, k.motion, k.plane, k.variant, k.coherent, k.sigma); break;
      case 4: ransac_case<Eigen::Vector3d>(c, kT3[0], k.n, k.pct, k.place, k.disp, k.motion, k.plane, k.variant, k.coherent, k.sigma); break; case 5: ransac_case<HomogeneousCoordinates3d>(c, kT3[1], k.n, k.pct, k.place, k.disp, k.motion, k.plane, k.variant, k.coherent, k.sigma); break;
      case 6: ransac_case<Eigen::Vector3f>(c, kT3[2], k.n, k.pct, k.place, k.disp, k.motion, k.plane, k.variant, k.coherent, k.sigma); break; default: ransac_case<HomogeneousCoordinates3f>(c, kT3[3], k.n, k.pct, k.place, k.disp, k.motion, k.plane, k.variant, k.coherent, k.sigma);
    }
  }
}

std::string vf_case_params(uint64_t idx, const std::string& tier) { const Case& k = cases(tier == "thorough")[idx]; return vf::JO().u("case", idx).str("explorer", k.kind ? "ransac" : "icp").i("type", k.type).num("tx", k.a).num("ty", k.b).num("theta", k.cc).i("pairs", k.n).done(); }

std::string vf_describe(const std::string& tier) {
  bool th = tier == "thorough"; vf::JO o;
  o.str("icp", th ? "test/data/scan2d.txt (702 points) x (tx,ty) on a 41x41 lattice over [-0.2,0.2]^2 x theta on 21 values over [-0.05,0.05] x {Vector2d, Homogeneous2d, Vector2f, Homogeneous2f}; envelope corners included; fresh ICP object, identity guess, sigma 0.2"
                  : "test/data/scan2d.txt (702 points) x (tx,ty) on a 21x21 lattice over [-0.2,0.2]^2 x theta in {-0.05,-0.025,0,0.025,0.05} x {Vector2d, Homogeneous2d, Vector2f, Homogeneous2f}; envelope corners included; fresh ICP object, identity guess, sigma 0.2");
  o.str("ransac", "Halton-pattern sets of {40,100,400} pairs over 20 m, 2D and 3D, all eight point types, inlier perturbation 0.3 sigma (sigma = 0.05; 100-pair sets also with sigma in {0.01,0.02,0.1,0.2} and outliers at 10.5/13/50 sigma), outliers {0,10,20,30}% placed first / last / interleaved and displaced 10.5 sigma or 50 sigma, six motions up to 0.5 m / 0.2 rad in the closed-form mode; point-to-plane mode for rotations up to 1e-3 rad; plus coherent outliers (all displaced by one common 15 sigma offset, 20/30%) over 40 (thorough 120) data-set variants; on every other data set the target and its normals are stored in another order (source index != target index) and the records carry the squared matching distance x {100,163,232,355,390} pairs, Vector2d and Vector3d");
  o.str("oracle", "find / estimateModel true; Frobenius norm of (estimate - truth) <= 0.015; reported consensus RMSE < sigma; estimate with outliers within 0.015 of the estimate on the same set without them");
  return o.done();
}

VF_MAIN()
