// C17 -- RateMonitoring and CheckupRate follow the stamped-event history exactly.
//  S1: BFS to fixpoint over (monitor + both rate check-ups private state x model), small windows (W=4),
//      12-event alphabet (7 data periods, 4 heartbeat offsets); objects are not copyable => state = event history
//      replayed on fresh objects; canonical state drops absolute time (checked differentially with a shifted origin).
//  S2: long scripted runs for larger windows with iterative deviation bounding (jitter, burst, silences, heartbeats).
#include <romea_core_common/monitoring/RateMonitoring.hpp>
#include <romea_core_common/diagnostic/CheckupRate.hpp>
#include "vrun.hpp"
#include <deque>
#include <unordered_set>

const char* kProperty = "C17";
using namespace romea::core;

namespace {

const long long kMs = 1000000LL, kS = 1000000000LL;
const long long kPeriods[] = {1000LL, kMs, 499 * kMs, 500 * kMs, 500 * kMs + 1, kS, 10 * kS};
const long long kHb[] = {0, 500 * kMs, 500 * kMs + 1, kS, (1LL << 32) + 200 * kMs};   // the last: a silence just above 2^32 ns
const int kNP = 7, kNH = 5;

const char* sname(DiagnosticStatus s) { switch (s) { case DiagnosticStatus::OK: return "OK"; case DiagnosticStatus::WARN: return "WARN"; case DiagnosticStatus::ERROR: return "ERROR"; default: return "STALE"; } }
std::string printed(double v) { std::ostringstream os; os << v; return os.str(); }

struct Event { bool data; long long dt; };   // data: stamp = last + dt ; heartbeat: stamp = last + dt

struct RModel {
  size_t W; bool any = false; long long last = 0; std::deque<long long> periods; size_t nstamps = 0; long double rate = 0;
  explicit RModel(double expected) { long double w = 2 * (long double)expected; size_t k = (size_t)w; W = std::min<size_t>(64, std::max<size_t>(4, k)); }
  long double update(long long t) {
    if (any) { periods.push_back(t - last); if (periods.size() > W) periods.pop_front(); }
    any = true; last = t; ++nstamps;
    if (nstamps >= W + 1) { long double s = 0; for (auto p : periods) s += p; rate = (long double)W * 1e9L / s; }
    return rate;
  }
  bool timeout(long long t) { if (any && t - last > 500 * kMs) { rate = 0; return true; } return false; }
};

struct CModel {   // check-up report model
  int kind; double target, eps; std::string name;
  DiagnosticStatus st = DiagnosticStatus::ERROR; std::string msg, info; long double rate = -1; bool boundary = false;
  CModel(int k, const std::string& n, double t, double e) : kind(k), target(t), eps(e), name(n) { msg = "no data received from " + n; }
  void evaluate(long double r) {
    rate = r; boundary = false;
    long double lo = (long double)target - eps, hi = (long double)target + eps;
    long double u = 8 * 1.2e-16L * (fabsl(r) + 1e-300L);
    if (fabsl(r - lo) <= u || (kind == 0 && fabsl(r - hi) <= u)) boundary = true;
    std::string n = name + "_rate";
    if (kind == 0) { if (r < lo) { st = DiagnosticStatus::ERROR; msg = n + " is too low."; } else if (r > hi) { st = DiagnosticStatus::ERROR; msg = n + " is too high."; } else { st = DiagnosticStatus::OK; msg = n + " is OK."; } }
    else { if (r > lo) { st = DiagnosticStatus::OK; msg = n + " is OK."; } else { st = DiagnosticStatus::ERROR; msg = n + " is too low."; } }
  }
  void timeout() { st = DiagnosticStatus::STALE; msg = name + "_rate timeout."; rate = -1; boundary = false; }
};

bool rate_close(double got, long double want) {
  if (want == 0) return got == 0;
  return fabsl((long double)got - want) <= 4 * 2.3e-16L * fabsl(want);
}
bool info_ok(const std::string& got, const CModel& m) {
  if (m.rate < 0) return got.empty();
  double r = (double)m.rate;
  for (int k = -4; k <= 4; ++k) { double x = r; for (int i = 0; i < std::abs(k); ++i) x = std::nextafter(x, k < 0 ? -1e300 : 1e300); if (printed(x) == got) return true; }
  return false;
}

struct Sys {
  std::unique_ptr<RateMonitoring> mon; CheckupEqualToRate eq; CheckupGreaterThanRate gt;   // the bare monitor is held by pointer so that it can be replaced by a copy of itself
  RModel rm; CModel ceq, cgt; long long origin, last;
  bool zeroFirst = false;   // the first data stamp is exactly 0 ns (the value the monitor's "last stamp" starts with)
  Sys(double rate, double tol, long long org) : mon(new RateMonitoring(rate)), eq("lidar", rate, tol), gt("lidar", rate, tol), rm(rate), ceq(0, "lidar", rate, tol), cgt(1, "lidar", rate, tol), origin(org), last(org) {}
};

std::string ev_json(const std::vector<Event>& h) {
  std::string s = "["; for (size_t i = 0; i < h.size(); ++i) { if (i) s += ","; s += h[i].dt < 0 ? std::string("{\"ev\":\"monitor replaced by a copy of itself\"}") : vf::JO().str("ev", h[i].data ? "stamp" : "heartbeat").i("dt_ns", h[i].dt).done(); } return s + "]";
}

template <class CK> bool check_report(vf::Ctx& c, const CK& ck, const CModel& m, const char* site, const std::string& params) {
  DiagnosticReport r = ck.getReport();
  std::string key = m.name + "_rate";
  std::string gotmsg = r.diagnostics.empty() ? "<none>" : r.diagnostics.front().message;
  std::string gotinfo = r.info.count(key) ? r.info.at(key) : "<missing>";
  DiagnosticStatus gs = r.diagnostics.empty() ? DiagnosticStatus::OK : r.diagnostics.front().status;
  c.obs((uint64_t)gs); for (char ch : gotmsg) c.obs((uint64_t)ch); for (char ch : gotinfo) c.obs((uint64_t)ch);
  bool ok = r.diagnostics.size() == 1 && r.info.size() == 1 && info_ok(gotinfo, m);
  if (!m.boundary) ok = ok && gs == m.st && gotmsg == m.msg;
  else ok = ok && ((gs == DiagnosticStatus::OK && gotmsg == key + " is OK.") || (gs == DiagnosticStatus::ERROR));   // within rounding of a threshold: either verdict, but consistent
  if (!ok) c.violation(site, params, vf::JO().str("status", sname(gs)).str("message", gotmsg).str("info", gotinfo)
                       .str("want_status", sname(m.st)).str("want_message", m.msg).num("model_rate", m.rate).done());
  return ok;
}

// apply one event to implementation and model, compare everything observable; false on violation
bool step(vf::Ctx& c, Sys& s, const Event& e, const std::string& params) {
  long long t = s.last + e.dt;
  if (s.zeroFirst && e.data && !s.rm.any) t = 0;
  bool ok = true;
  c.eval();
  if (e.data) {
    double r = s.mon->update(Duration(t));
    long double want = s.rm.update(t);
    s.last = t;
    c.obs(r);
    if (!rate_close(r, want) || s.mon->getRate() != r) { c.violation("RateMonitoring.update", params, vf::JO().num("got", r).num("getRate", s.mon->getRate()).num("want", want).u("model_window", s.rm.W).u("stamps", s.rm.nstamps).done()); ok = false; }
    DiagnosticStatus a = s.eq.evaluate(Duration(t)), b = s.gt.evaluate(Duration(t));
    s.ceq.evaluate(want); s.cgt.evaluate(want);
    if (!s.ceq.boundary && a != s.ceq.st) { c.violation("CheckupEqualToRate.evaluate.returnedStatus", params, vf::JO().str("got", sname(a)).str("want", sname(s.ceq.st)).num("model_rate", want).done()); ok = false; }
    if (!s.cgt.boundary && b != s.cgt.st) { c.violation("CheckupGreaterThanRate.evaluate.returnedStatus", params, vf::JO().str("got", sname(b)).str("want", sname(s.cgt.st)).num("model_rate", want).done()); ok = false; }
    if (a != s.eq.getReport().diagnostics.front().status || b != s.gt.getReport().diagnostics.front().status) { c.violation("CheckupRate.evaluate.returnedVsStored", params, "{}"); ok = false; }
  } else {
    bool to = s.mon->timeout(Duration(t));
    bool want = s.rm.timeout(t);
    c.obs((uint64_t)to);
    if (to != want || !rate_close(s.mon->getRate(), s.rm.rate)) { c.violation("RateMonitoring.timeout", params, vf::JO().b("got", to).b("want", want).num("rate", s.mon->getRate()).num("want_rate", s.rm.rate).i("silence_ns", t - s.rm.last).done()); ok = false; }
    bool ha = s.eq.heartBeatCallback(Duration(t)), hb = s.gt.heartBeatCallback(Duration(t));
    if (want) { s.ceq.timeout(); s.cgt.timeout(); }
    if (ha != !want || hb != !want) { c.violation("CheckupRate.heartBeatCallback", params, vf::JO().b("got_eq", ha).b("got_gt", hb).b("want", !want).done()); ok = false; }
  }
  if (!check_report(c, s.eq, s.ceq, "CheckupEqualToRate.getReport", params)) ok = false;
  if (!check_report(c, s.gt, s.cgt, "CheckupGreaterThanRate.getReport", params)) ok = false;
  return ok;
}

// the monitor's period window whatever container holds it (std::queue today): adapter .c if there is one, else begin()/end()
template <class Q> auto raw_periods(const Q& q, int) -> decltype(q.c.begin(), std::vector<long long>()) { return std::vector<long long>(q.c.begin(), q.c.end()); }
template <class Q> std::vector<long long> raw_periods(const Q& q, long) { return std::vector<long long>(std::begin(q), std::end(q)); }

uint64_t canon(const Sys& s) {
  uint64_t h = 3;
  // implementation: period queue (first pseudo-period, which is the absolute first stamp, replaced by a marker), sum, rate, reports
  const std::vector<long long> q = raw_periods(s.mon->periods_, 0);
  long long sum = s.mon->periodsSum_;
  bool firstIn = s.rm.nstamps >= 1 && s.rm.nstamps <= s.rm.W;   // the pseudo-period is still queued
  for (size_t i = 0; i < q.size(); ++i) { if (i == 0 && firstIn) { h = vf::mix64(h, 0xabcdef); sum -= q[0]; } else h = vf::mix64(h, (uint64_t)q[i]); }
  h = vf::mix64(h, (uint64_t)sum);
  double r = s.mon->getRate(); uint64_t u; memcpy(&u, &r, 8); h = vf::mix64(h, u);
  for (const DiagnosticReport& rep : {s.eq.getReport(), s.gt.getReport()}) {
    h = vf::mix64(h, (uint64_t)rep.diagnostics.front().status);
    for (char ch : rep.diagnostics.front().message) h = vf::mix64(h, ch);
    for (char ch : rep.info.begin()->second) h = vf::mix64(h, ch);
  }
  // the check-ups own monitors
  for (const RateMonitoring* m : {&s.eq.rateMonitoring_, &s.gt.rateMonitoring_}) { h = vf::mix64(h, m->periods_.size()); double rr = m->getRate(); memcpy(&u, &rr, 8); h = vf::mix64(h, u); }
  // model
  h = vf::mix64(h, std::min(s.rm.nstamps, s.rm.W + 1)); for (auto p : s.rm.periods) h = vf::mix64(h, (uint64_t)p);
  h = vf::mix64(h, s.rm.rate == 0); h = vf::mix64(h, s.rm.any);
  return h;
}

std::vector<Event> alphabet() {
  std::vector<Event> a;
  for (int i = 0; i < kNP; ++i) a.push_back({true, kPeriods[i]});
  for (int j = 0; j < kNH; ++j) a.push_back({false, kHb[j]});
  return a;
}

// ---- S1 -------------------------------------------------------------------------------------------------------
void s1(vf::Ctx& c, double rate, double tol, size_t maxStates) {
  auto A = alphabet();
  const long long T0 = 1000 * kS, T1 = T0 + 3600 * kS;
  std::unordered_set<uint64_t> seen;
  std::deque<std::vector<int>> fr;
  { Sys s(rate, tol, T0); seen.insert(canon(s)); c.states(); }
  fr.push_back({});
  size_t maxDepth = 0;
  while (!fr.empty()) {
    std::vector<int> hist = fr.front(); fr.pop_front();
    for (int ev = 0; ev < (int)A.size(); ++ev) {
      // replay the history on fresh objects (twice: origin T0 and shifted origin), then the new event
      Sys s(rate, tol, T0), s2(rate, tol, T1), s3(rate, tol, -20 * kS); s3.zeroFirst = true;
      vf::Ctx mute; mute.scratch = true;
      std::vector<Event> evs;
      bool okReplay = true;
      for (int h : hist) { evs.push_back(A[h]); okReplay = step(mute, s, A[h], "{}") && okReplay; step(mute, s2, A[h], "{}"); step(mute, s3, A[h], "{}"); }
      if (!okReplay || mute.c.violations) { c.violation("harness.replayDivergence", vf::JO().raw("history", ev_json(evs)).done(), "{}"); continue; }
      evs.push_back(A[ev]);
      std::string params = vf::JO().str("explorer", "S1").num("expected_rate", rate).num("tolerance", tol).raw("history", ev_json(evs)).done();
      c.transitions(); c.traces();
      bool ok = step(c, s, A[ev], params);
      vf::Ctx m2; step(m2, s2, A[ev], params); step(m2, s3, A[ev], params);
      if (ok && (m2.c.violations || canon(s) != canon(s2) || s.mon->getRate() != s2.mon->getRate() || canon(s) != canon(s3) || s.mon->getRate() != s3.mon->getRate())) {
        c.violation("RateMonitoring.timeOriginDependence", params, vf::JO().num("rate_origin0", s.mon->getRate()).num("rate_shifted", s2.mon->getRate()).num("rate_first_stamp_zero", s3.mon->getRate()).done()); ok = false;
      }
      if (s.rm.nstamps > s.rm.W + 1 || !A[ev].data) c.nontrivial();
      if (!ok) continue;
      if (seen.insert(canon(s)).second) {
        c.states();
        std::vector<int> nh = hist; nh.push_back(ev); maxDepth = std::max(maxDepth, nh.size());
        if (c.want_sample() && nh.size() == 6) c.sample(params);
        fr.push_back(nh);
        if (seen.size() > maxStates) { c.violation("harness.stateExplosion", "{}", "{}"); return; }
      }
    }
  }
  c.note_max("s1_max_history_length", (double)maxDepth);
}

// ---- S1b: every event sequence to a depth, no state de-duplication (robust against state the canonical key does not see) ---
void s1b(vf::Ctx& c, double rate, double tol, int depth, int first) {
  auto A = alphabet();
  const int NA = (int)A.size();
  const int NE = NA + 1;   // + "replace the bare monitor by a copy of itself" (hand-written copy constructor; the check-ups are not copyable)
  uint64_t total = 1; for (int i = 1; i < depth; ++i) total *= NE;
  std::vector<int> seq(depth); seq[0] = first;
  for (uint64_t k = 0; k < total; ++k) {
    uint64_t r = k; for (int i = 1; i < depth; ++i) { seq[i] = r % NE; r /= NE; }
    for (int z = 0; z < 2; ++z) {
      Sys s(rate, tol, z ? -20 * kS : 1000 * kS); s.zeroFirst = z;
      std::vector<Event> evs;
      for (int i = 0; i < depth; ++i) {
        if (seq[i] == NA) { std::unique_ptr<RateMonitoring> cp(new RateMonitoring(*s.mon)); s.mon = std::move(cp); evs.push_back({false, -1}); c.transitions(); continue; }
        evs.push_back(A[seq[i]]);
        c.transitions(); if (i) c.nontrivial();
        std::string params = (i + 1 == depth || (k % NE) == 0) ? vf::JO().str("explorer", "S1b").num("expected_rate", rate).num("tolerance", tol).b("first_stamp_zero", z).raw("history", ev_json(evs)).done() : std::string("{\"explorer\":\"S1b\"}");
        if (!step(c, s, A[seq[i]], params)) break;
      }
      c.traces();
    }
    if (c.c.violations > 30) return;
  }
}

// ---- S2 -------------------------------------------------------------------------------------------------------
// deviation kinds applied at event position pos of the default steady script
//  0 jitter +10%, 1 jitter -10%, 2 burst (1 us period), 3 silence 0.6 s, 4 silence 10 s, 5 early heartbeat inserted, 6 late heartbeat inserted (0.5s+1ns), 7 very late heartbeat (2 s) then data
struct Dev { int pos, kind; };
const char* kDevName[] = {"jitter+10%", "jitter-10%", "burst_1us", "silence_0.6s", "silence_10s", "heartbeat_early", "heartbeat_0.5s+1ns", "heartbeat_2s", "heartbeat_2^31ns+0.2s", "heartbeat_2^32ns+0.2s", "heartbeat_2^33ns+0.2s", "heartbeat_9.9s"};
const int kNDev = 12;
bool run_script(vf::Ctx& c, double rate, double tol, int len, const std::vector<Dev>& devs, bool zeroFirst = false, bool jittered = false) {
  Sys s(rate, tol, zeroFirst ? -20 * kS : 77 * kS); s.zeroFirst = zeroFirst;
  long long period = (long long)llround(1e9 / rate);
  std::vector<Event> evs;
  for (int i = 0; i < len; ++i) {
    Event e{true, jittered ? period + (period / 20) * (((long long)i * 7) % 5 - 2) + (i % 3) : period};   // jittered: +-10 % in five levels plus a few ns, never constant
    for (auto& d : devs) if (d.pos == i) {
      switch (d.kind) {
        case 0: e.dt = period + period / 10; break; case 1: e.dt = period - period / 10; break; case 2: e.dt = 1000; break;
        case 3: e.dt = 600 * kMs; break; case 4: e.dt = 10 * kS; break;
        case 5: evs.push_back({false, std::min(period / 2, 400 * kMs)}); break;
        case 6: evs.push_back({false, 500 * kMs + 1}); if (e.dt <= 500 * kMs + 1) e.dt = 500 * kMs + 2; break;
        case 7: evs.push_back({false, 2 * kS}); evs.push_back({false, 3 * kS}); e.dt = 3 * kS + period; break;
        case 8: case 9: case 10: case 11: { long long hb = d.kind == 11 ? 9900 * kMs : (1LL << (23 + d.kind)) + 200 * kMs; evs.push_back({false, hb}); e.dt = hb + period; break; }   // a single heartbeat after a silence just above 2^31 / 2^32 / 2^33 ns (and 9.9 s)
      }
    }
    evs.push_back(e);
  }
  auto params = [&](size_t upto) {
    std::string ds = "["; for (size_t k = 0; k < devs.size(); ++k) { if (k) ds += ","; ds += vf::JO().i("pos", devs[k].pos).str("kind", kDevName[devs[k].kind]).done(); } ds += "]";
    return vf::JO().str("explorer", "S2").num("expected_rate", rate).num("tolerance", tol).i("script_length", len).b("first_stamp_zero", zeroFirst).b("jittered", jittered).raw("deviations", ds).u("failed_at_event", upto).done();
  };
  for (size_t i = 0; i < evs.size(); ++i) {
    c.transitions();
    if (!step(c, s, evs[i], params(i))) return false;
  }
  c.traces(); if (!devs.empty()) c.nontrivial();
  if (c.want_sample() && devs.size() == 1 && devs[0].pos == len / 2) c.sample(params(evs.size()));
  return true;
}

void s2(vf::Ctx& c, double rate, double tol, int len, int bound, int first) {
  if (first < 0) { run_script(c, rate, tol, len, {}); run_script(c, rate, tol, len, {}, true); run_script(c, rate, tol, std::max(len, 700), {}, false, true); run_script(c, rate, tol, std::max(len, 700), {{300, 3}, {301, 6}}, false, true); return; }
  for (int k1 = 0; k1 < kNDev; ++k1) {
    if (!run_script(c, rate, tol, len, {{first, k1}})) return;
    if (!run_script(c, rate, tol, std::min(len, 150), {{first, k1}}, true)) return;
    if (bound >= 2) for (int p2 = first + 1; p2 < len; ++p2) for (int k2 = 0; k2 < kNDev; ++k2) if (!run_script(c, rate, tol, len, {{first, k1}, {p2, k2}})) return;
  }
}

struct Case { int kind; double rate, tol; int len, bound, first; };
std::vector<Case> g_cases[2];
const std::vector<Case>& cases(bool th) {
  auto& v = g_cases[th];
  if (!v.empty()) return v;
  for (double r : {0.5, 1.0, 2.0, 2.5}) for (double t : {0.0, 0.1}) { if (r == 2.5 && (!th || t == 0.0)) continue; v.push_back({1, r, t, 0, 0, 0}); }
  for (double r : {5.0, 10.0, 12.5, 32.0, 200.0}) for (double t : {0.0, 0.1}) {
    int W = (int)std::min(64.0, std::max(4.0, 2 * r));
    v.push_back({2, r, t, 500, 0, -1});
    int len1 = th ? 500 : 3 * W + 8;
    for (int f = 0; f < len1; ++f) v.push_back({2, r, t, len1, 1, f});
    if (th || r == 5.0 || (r == 12.5 && t == 0.1)) { int len2 = (th && r < 30 ? 3 : 2) * W + 6; for (int f = 0; f < len2; ++f) v.push_back({2, r, t, len2, 2, f}); }
  }
  for (double r : {1.0, 2.5}) for (int f = 0; f < kNP + kNH; ++f) v.push_back({3, r, 0.1, th ? 6 : 5, 0, f});   // the first event is a real event; the copy operation appears from the second position on
  return v;
}

}  // namespace

uint64_t vf_ncases(const std::string& tier) { return cases(tier == "thorough").size(); }

std::string vf_case_params(uint64_t idx, const std::string& tier) {
  const Case& k = cases(tier == "thorough")[idx];
  return vf::JO().u("case", idx).str("explorer", k.kind == 1 ? "S1" : k.kind == 3 ? "S1b" : "S2").num("expected_rate", k.rate).num("tolerance", k.tol).i("first_deviation", k.first).done();
}

void vf_run(uint64_t idx, const std::string& tier, vf::Ctx& c) {
  const Case& k = cases(tier == "thorough")[idx];
  if (k.kind == 1) s1(c, k.rate, k.tol, 4000000); else if (k.kind == 3) s1b(c, k.rate, k.tol, k.len, k.first); else s2(c, k.rate, k.tol, k.len, k.bound, k.first);
}

std::string vf_describe(const std::string& tier) {
  bool th = tier == "thorough";
  vf::JO o;
  o.str("S1", th ? "expected rates 0.5,1,2 (W=4) x tolerance {0,0.1} and 2.5 (W=5) x 0.1" : "expected rates 0.5,1,2 (W=4) x tolerance {0,0.1}");
  o.vec("S1_data_periods_ns", std::vector<long long>(kPeriods, kPeriods + kNP)).vec("S1_heartbeat_offsets_ns", std::vector<long long>(kHb, kHb + kNH));
  o.str("S1_search", "BFS to fixpoint; state = monitor queue/sum/rate + both check-up reports + model; history replayed on fresh objects at two time origins");
  o.str("S1b", th ? "every sequence of 6 events over the 12-event alphabet plus \"replace the bare monitor by a copy of itself\" for expected rates 1 (W=4) and 2.5 (W=5), no state de-duplication" : "every sequence of 5 events over the 12-event alphabet plus \"replace the bare monitor by a copy of itself\" for expected rates 1 (W=4) and 2.5 (W=5), no state de-duplication");
  o.str("S2", th ? "expected rates 5,10,12.5,32,200 x tolerance {0,0.1}: 500-event steady script, deviation bound 1 at every position (12 kinds incl. single heartbeats after silences just above 2^31 / 2^32 / 2^33 ns), bound 2 on scripts of 2-3 windows"
                 : "expected rates 5,10,12.5,32,200 x tolerance {0,0.1}: 500-event steady script (bound 0), bound 1 on 3W+8 events (12 kinds incl. single heartbeats after silences just above 2^31 / 2^32 / 2^33 ns, every position), bound 2 on 2W+6 events for rate 5 and 12.5");
  o.str("S2_jittered", "per rate and tolerance: a 700-event script whose periods vary by +-10 % in five levels plus a few nanoseconds (never constant), plain and with a silence + late heartbeat in the middle");
  o.str("time_origins", "S1: every transition at two origins plus a run whose first data stamp is exactly 0 ns, canonical states compared; S1b: every sequence with a positive origin and with first stamp 0; S2: bound 0/1 scripts also with first stamp 0 (first 150 events)");
  o.str("oracle", "rate = 0 until W+1 stamps, then W/(span of last W periods) within 4 ulp; timeout iff silence > 0.5 s; report status/message/info vs model after every event");
  return o.done();
}

VF_MAIN()
