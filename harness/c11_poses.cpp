// C11 -- pose / twist / position reductions keep means and covariances; rigid transforms act as the SE(3) group action on a
// 3D pose; the uncertainty ellipse is the sigma-scaled principal-axis ellipse of the xy covariance.
#include <romea_core_common/geometry/Pose3D.hpp>
#include <romea_core_common/geometry/Pose2D.hpp>
#include <romea_core_common/geometry/Position2D.hpp>
#include <romea_core_common/geometry/Position3D.hpp>
#include <romea_core_common/geometry/Twist3D.hpp>
#include <romea_core_common/geometry/Twist2D.hpp>
#include <romea_core_common/geometry/PoseAndTwist3D.hpp>
#include <romea_core_common/geometry/PoseAndTwist2D.hpp>
#include <romea_core_common/math/Matrix.hpp>
#include <romea_core_common/math/EulerAngles.hpp>
#include "vrun.hpp"
#include <Eigen/Eigenvalues>

const char* kProperty = "C11";
using namespace romea::core;
using M6 = Eigen::Matrix<double, 6, 6>;
using L3 = Eigen::Matrix<long double, 3, 3>;

namespace {

bool g_th = true;    // the catalogue extension formerly reserved to the thorough tier is part of both tiers now
bool g_x = false;    // thorough tier: dense sweeps on top

L3 refR(long double r, long double p, long double y) {
  L3 Rx, Ry, Rz;
  Rx << 1, 0, 0, 0, cosl(r), -sinl(r), 0, sinl(r), cosl(r);
  Ry << cosl(p), 0, sinl(p), 0, 1, 0, -sinl(p), 0, cosl(p);
  Rz << cosl(y), -sinl(y), 0, sinl(y), cosl(y), 0, 0, 0, 1;
  return Rz * Ry * Rx;
}
L3 refR(const Eigen::Vector3d& a) { return refR(a[0], a[1], a[2]); }

// catalogue of symmetric PSD 6x6 matrices (rank-deficient included), exactly symmetric
std::vector<M6> cov_catalogue() {
  std::vector<M6> v;
  std::vector<std::array<double, 6>> D = {{1, 1, 1, 1, 1, 1}, {1e4, 1, 1e-4, 0, 2, 0.5}, {0, 0, 0, 0, 0, 0}, {3, 0, 0, 0, 0, 0}, {1e-8, 1, 1e-8, 1, 1e-8, 1}, {5, 4, 3, 2, 1, 0}, {1e4, 1e4, 1e-4, 1e-4, 1, 1}};
  for (int q = 0; q < 4; ++q) for (auto& d : D) {
    M6 Q = M6::Identity();
    if (q) for (int i = 0; i < 6; ++i) for (int j = i + 1; j < 6; ++j) {   // product of Givens rotations
      double a = 0.37 * q + 0.11 * i - 0.23 * j; M6 G = M6::Identity(); G(i, i) = std::cos(a); G(j, j) = std::cos(a); G(i, j) = -std::sin(a); G(j, i) = std::sin(a); Q = Q * G;
    }
    M6 Dm = M6::Zero(); for (int i = 0; i < 6; ++i) Dm(i, i) = d[i];
    M6 C = Q * Dm * Q.transpose(); C = ((C + C.transpose()) / 2).eval();
    v.push_back(C);
  }
  return v;
}

std::vector<Eigen::Vector3d> attitudes() {
  std::vector<Eigen::Vector3d> v;
  std::vector<double> rs = {0.0, 0.7, -2.5, 3.0}, ps = {0.0, 0.3, -1.2, M_PI / 2 - 1.5e-3, M_PI / 2 - 2e-3, -(M_PI / 2 - 4e-3), M_PI / 2 - 0.01, 2.5, -2.0, 3.0}, ys = {0.0, 0.4, -3.0, 5.5};
  if (g_th) { for (double x : {M_PI / 2, -M_PI / 2, M_PI, 1e-9, -0.3, 6.2}) rs.push_back(x); for (double x : {-0.3, 0.9, 1.2, -1.5, 1.55, -(M_PI / 2 - 1.1e-3), M_PI / 2 - 3e-3, -(M_PI / 2 - 0.02)}) ps.push_back(x); for (double x : {M_PI / 2, -M_PI / 2, M_PI, -1e-9, 2.0, -6.0}) ys.push_back(x); }
  if (g_x) { for (int k = -6; k <= 6; ++k) { rs.push_back(0.45 * k + 0.013); ys.push_back(0.51 * k - 0.007); } for (int k = -12; k <= 12; ++k) ps.push_back(0.125 * k + 0.004); }
  for (double r : rs) for (double p : ps) for (double y : ys) v.push_back({r, p, y});
  return v;
}
std::vector<Eigen::Vector3d> positions() { return {{0, 0, 0}, {1, -1, 0.5}, {1e4, -1e4, 10}, {-3.2, 7.7, -1e4}}; }

std::vector<Eigen::Affine3d> transforms() {
  std::vector<Eigen::Affine3d> v;
  std::vector<Eigen::Vector3d> ts = {{0, 0, 0}, {0.3, -1.2, 2}, {1e3, -1e3, 10}};
  std::vector<Eigen::Matrix3d> Rs;
  Rs.push_back(Eigen::Matrix3d::Identity());
  for (double a : {0.4, -2.0, M_PI}) Rs.push_back(Eigen::AngleAxisd(a, Eigen::Vector3d::UnitZ()).toRotationMatrix());
  Rs.push_back(Eigen::AngleAxisd(0.5, Eigen::Vector3d::UnitX()).toRotationMatrix());
  Rs.push_back(Eigen::AngleAxisd(M_PI / 2 - 0.3 - 3e-3, Eigen::Vector3d::UnitY()).toRotationMatrix());
  for (double delta : {2e-5, 1e-4, 3e-4, 4.4e-4}) Rs.push_back(Eigen::AngleAxisd(M_PI / 2 - 0.3 - delta, Eigen::Vector3d::UnitY()).toRotationMatrix());   // with a pose of pitch 0.3 and yaw 0 the composed attitude lies 2e-5 .. 4.4e-4 rad from gimbal lock
  Rs.push_back(Eigen::AngleAxisd(-1.1, Eigen::Vector3d(1, 1, 0).normalized()).toRotationMatrix());
  Rs.push_back(Eigen::AngleAxisd(2.7, Eigen::Vector3d(-2, 1, 3).normalized()).toRotationMatrix());
  Rs.push_back((Eigen::AngleAxisd(1.1, Eigen::Vector3d::UnitX()) * Eigen::AngleAxisd(-0.7, Eigen::Vector3d::UnitY())).toRotationMatrix());
  if (g_th) for (Eigen::Vector3d ax : {Eigen::Vector3d(1, 0, 0), Eigen::Vector3d(0, 1, 0), Eigen::Vector3d(1, -1, 1), Eigen::Vector3d(0.1, -1, 0.2)}) for (double a : {1e-3, 1.0, -2.5, M_PI - 1e-3}) Rs.push_back(Eigen::AngleAxisd(a, ax.normalized()).toRotationMatrix());
  // the 24 rotations of the cube (signed permutation matrices: sensor mounting transforms; several have a roll-pitch-yaw pitch of exactly +-pi/2)
  { int perm[6][3] = {{0, 1, 2}, {0, 2, 1}, {1, 0, 2}, {1, 2, 0}, {2, 0, 1}, {2, 1, 0}};
    for (auto& pm : perm) for (int sg = 0; sg < 8; ++sg) { Eigen::Matrix3d M = Eigen::Matrix3d::Zero(); for (int i = 0; i < 3; ++i) M(i, pm[i]) = (sg >> i) & 1 ? -1.0 : 1.0; if (M.determinant() > 0) Rs.push_back(M); } }
  // nearly planar and nearly identity transforms
  for (double tilt : {1e-9, 1e-6, 3e-4, 8e-4}) Rs.push_back((Eigen::AngleAxisd(0.4, Eigen::Vector3d::UnitZ()) * Eigen::AngleAxisd(tilt, Eigen::Vector3d(1, 0.5, 0).normalized())).toRotationMatrix());
  Rs.push_back(Eigen::AngleAxisd(1e-7, Eigen::Vector3d(-2, 1, 3).normalized()).toRotationMatrix());
  if (g_x) for (int i = 0; i < 12; ++i) { Eigen::Vector3d ax(std::cos(1.0 + 2.4 * i), std::sin(0.3 + 1.7 * i), std::cos(2.0 + 0.9 * i) + 0.011); for (double a : {0.35, -1.3, 2.2, 3.0}) Rs.push_back(Eigen::AngleAxisd(a, ax.normalized()).toRotationMatrix()); }
  for (auto& R : Rs) for (auto& t : ts) { Eigen::Affine3d T = Eigen::Affine3d::Identity(); T.linear() = R; T.translation() = t; v.push_back(T); }
  return v;
}

double min_eig(const Eigen::MatrixXd& C) { Eigen::SelfAdjointEigenSolver<Eigen::MatrixXd> es(C); return es.eigenvalues().minCoeff(); }
double max_eig(const Eigen::MatrixXd& C) { Eigen::SelfAdjointEigenSolver<Eigen::MatrixXd> es(C); return es.eigenvalues().cwiseAbs().maxCoeff(); }

void reductions(vf::Ctx& c) {
  auto covs = cov_catalogue(); auto atts = attitudes(); auto poss = positions();
  for (size_t ic = 0; ic < covs.size(); ++ic) for (size_t ia = 0; ia < atts.size(); ia += 5) for (size_t ip = 0; ip < poss.size(); ++ip) {
    Pose3D p; p.position = poss[ip]; p.orientation = atts[ia]; p.covariance = covs[ic];
    c.eval(); c.nontrivial();
    std::string params = vf::JO().u("covariance", ic).u("attitude", ia).u("position", ip).done();
    Eigen::Matrix3d want;
    const int sel[3] = {0, 1, 5};
    for (int i = 0; i < 3; ++i) for (int j = 0; j < 3; ++j) want(i, j) = covs[ic](sel[i], sel[j]);
    Pose2D a = toPose2D(p), b; toPose2D(p, b);
    for (int i = 0; i < 9; ++i) c.obs(a.covariance(i / 3, i % 3));
    if (a.position != p.position.head<2>() || a.yaw != p.orientation.z() || a.covariance != want || b.position != a.position || b.yaw != a.yaw || b.covariance != a.covariance)
      c.violation("toPose2D", params, vf::JO().num("yaw", a.yaw).done());
    Position3D q = toPosition3D(p), q2; toPosition3D(p, q2);
    if (q.position != p.position || q.covariance != covs[ic].block<3, 3>(0, 0) || q2.position != q.position || q2.covariance != q.covariance) c.violation("toPosition3D", params, "{}");
    Twist3D t; t.linearSpeeds = poss[ip]; t.angularSpeeds = atts[ia]; t.covariance = covs[ic];
    Twist2D t2 = toTwist2D(t), t3; toTwist2D(t, t3);
    if (t2.linearSpeeds != t.linearSpeeds.head<2>() || t2.angularSpeed != t.angularSpeeds.z() || t2.covariance != want || t3.linearSpeeds != t2.linearSpeeds || t3.angularSpeed != t2.angularSpeed || t3.covariance != t2.covariance)
      c.violation("toTwist2D", params, "{}");
    PoseAndTwist3D pt; pt.pose = p; pt.twist = t; pt.twist.covariance = covs[(ic + 3) % covs.size()];
    PoseAndTwist2D pt2 = toPoseAndTwist2D(pt), pt3; toPoseAndTwist2D(pt, pt3);
    Eigen::Matrix3d want2; for (int i = 0; i < 3; ++i) for (int j = 0; j < 3; ++j) want2(i, j) = pt.twist.covariance(sel[i], sel[j]);
    if (pt2.pose.position != a.position || pt2.pose.yaw != a.yaw || pt2.pose.covariance != want || pt2.twist.linearSpeeds != t2.linearSpeeds || pt2.twist.angularSpeed != t2.angularSpeed || pt2.twist.covariance != want2 ||
        pt3.pose.covariance != want || pt3.twist.covariance != want2 || pt3.pose.yaw != a.yaw) c.violation("toPoseAndTwist2D", params, "{}");
    // embedding and reduction; symmetry / PSD preserved
    M6 e = toSe3Covariance<double>(want);
    if (toSe2Covariance<double>(e) != want) c.violation("toSe2Covariance.toSe3Covariance.identity", params, "{}");
    if (e != e.transpose() || want != want.transpose()) c.violation("covariance.symmetry", params, "{}");
    double scale = std::max(1e-300, max_eig(covs[ic]));
    if (min_eig(want) < -1e-12 * scale || min_eig(e) < -1e-12 * scale) c.violation("covariance.positiveSemiDefinite", params, vf::JO().num("min_eig_se2", min_eig(want)).num("min_eig_se3", min_eig(e)).done());
    for (int i = 0; i < 6; ++i) for (int j = 0; j < 6; ++j) { bool keep = (i == 0 || i == 1 || i == 5) && (j == 0 || j == 1 || j == 5); if (!keep && e(i, j) != 0) { c.violation("toSe3Covariance.nonPlanarEntries", params, "{}"); i = 6; break; } }
    if (c.want_sample()) c.sample(params);
  }
}

bool far_from_lock(const L3& R) { return fabsl(R(2, 0)) <= cosl(1e-3L); }   // the pose of the quantifier: 1e-3 rad from gimbal lock
bool result_defined(const L3& R) { return fabsl(R(2, 0)) <= cosl(1e-5L); }   // the transformed attitude is compared as a rotation: only the immediate vicinity of the lock (1e-5 rad) is left out

void group_action(vf::Ctx& c, size_t it) {
  auto Ts = transforms(); auto atts = attitudes(); auto poss = positions(); auto covs = cov_catalogue();
  const Eigen::Affine3d& T1 = Ts[it];
  L3 R1 = T1.linear().cast<long double>();
  for (size_t ia = 0; ia < atts.size(); ++ia) for (size_t ip = 0; ip < poss.size(); ++ip) {
    Pose3D p; p.position = poss[ip]; p.orientation = atts[ia]; p.covariance = covs[(ia + ip) % covs.size()];
    L3 Rp = refR(atts[ia]);
    if (!far_from_lock(Rp)) { c.trivial(); continue; }
    std::string params = vf::JO().u("transform", it).vec("pose_rpy", std::vector<double>{atts[ia][0], atts[ia][1], atts[ia][2]}).vec("pose_xyz", std::vector<double>{poss[ip][0], poss[ip][1], poss[ip][2]}).done();
    L3 want = R1 * Rp;
    if (!result_defined(want)) { c.trivial(); continue; }
    c.eval();
    long double cp = sqrtl(1 - want(2, 0) * want(2, 0));
    if (cp < 0.02L) c.nontrivial(); else if (it >= 3) c.nontrivial();
    Pose3D r = T1 * p;
    for (int i = 0; i < 3; ++i) { c.obs(r.position[i]); c.obs(r.orientation[i]); }
    Eigen::Matrix<long double, 3, 1> wp = R1 * poss[ip].cast<long double>() + T1.translation().cast<long double>();
    long double pscale = 1 + wp.norm() + poss[ip].norm();
    if ((r.position.cast<long double>() - wp).norm() > 1e-12L * pscale) c.violation("Pose3D.transform.position", params, vf::JO().num("err", (r.position.cast<long double>() - wp).norm()).done());
    long double aerr = (refR(r.orientation) - want).norm();
    long double atol = std::min<long double>(1e-9L, 2e-14L + 2e-15L / cp);
    c.note_max("attitude_err_over_tol", (double)(aerr / atol));
    if (!(aerr <= atol)) c.violation("Pose3D.transform.attitude", params, vf::JO().num("err", aerr).num("tol", atol).num("distance_to_gimbal_lock", acosl(fabsl(want(2, 0))) ).done());
    // identity neutral (exact up to rounding of the angle extraction)
    if (it == 0) {
      if ((r.position - p.position).norm() > 1e-12 * (1 + p.position.norm())) c.violation("Pose3D.transform.identityNeutral.position", params, "{}");
    }
    // composition with a second transform: (T2*T1)*p == T2*(T1*p)
    for (size_t j = 0; j < Ts.size(); j += 4) {
      const Eigen::Affine3d& T2 = Ts[j];
      L3 w2 = T2.linear().cast<long double>() * want;
      if (!result_defined(w2)) { c.trivial(); continue; }
      c.eval(); c.nontrivial();
      Pose3D a = (T2 * T1) * p, b = T2 * r;
      long double cp2 = sqrtl(1 - w2(2, 0) * w2(2, 0));
      long double tol2 = std::min<long double>(1e-9L, 4e-14L + 4e-15L / cp2 + 4e-15L / cp);
      long double ps = 1 + a.position.norm() + T1.translation().norm() + T2.translation().norm() + poss[ip].norm();
      if ((a.position - b.position).norm() > 1e-12 * ps || (refR(a.orientation) - refR(b.orientation)).norm() > tol2 || (refR(a.orientation) - w2).norm() > tol2)
        c.violation("Pose3D.transform.composition", vf::JO().u("T1", it).u("T2", j).vec("pose_rpy", std::vector<double>{atts[ia][0], atts[ia][1], atts[ia][2]}).done(),
                    vf::JO().num("pos_err", (a.position - b.position).norm()).num("att_err", (refR(a.orientation) - refR(b.orientation)).norm()).done());
    }
    if (c.want_sample()) c.sample(params);
  }
}

void ellipses(vf::Ctx& c, bool th) {
  std::vector<std::array<double, 2>> ab = {{1, 1}, {4, 1}, {2.5, 0}, {1e4, 1e-4}, {1e-6, 1e-8}, {9, 8.999}, {0, 0}, {1e8, 1}, {3, 1e-9}};
  int step = th ? 1 : 4;   // in quarter degrees
  // principal axis every quarter / whole degree, plus axes a graded tiny angle away from the coordinate axes (negative "deg" codes)
  std::vector<std::pair<int, double>> axes; for (int deg = 0; deg < 720; deg += step) axes.push_back({deg, deg * M_PI / 720});
  { int code = -1; for (double base : {0.0, M_PI / 2, M_PI, -M_PI / 2}) for (double t : {1e-15, 1e-12, 1e-10, 1e-8, 1e-6, 1e-4, -1e-12, -1e-8, -1e-5}) axes.push_back({code--, base + t}); }
  for (auto& e : ab) for (auto& ax : axes) for (double sigma : {0.1, 1.0, 3.0, 10.0}) {
    int deg = ax.first; double th_ = ax.second;
    Eigen::Matrix2d Q; Q << std::cos(th_), -std::sin(th_), std::sin(th_), std::cos(th_);
    Eigen::Matrix2d C = Q * Eigen::Vector2d(e[0], e[1]).asDiagonal() * Q.transpose(); C = ((C + C.transpose()) / 2).eval();
    Position2D p2; p2.position = Eigen::Vector2d(3.5, -1e3); p2.covariance = C;
    Pose2D po; po.position = p2.position; po.yaw = 0.3; po.covariance.setZero(); po.covariance.block<2, 2>(0, 0) = C; po.covariance(2, 2) = 0.5; po.covariance(0, 2) = po.covariance(2, 0) = 0.01 * std::sqrt(e[0]);
    for (int which = 0; which < 2; ++which) {
      Ellipse el = which ? uncertaintyEllipse(po, sigma) : uncertaintyEllipse(p2, sigma);
      c.eval(); if (e[1] == 0 || deg % 360) c.nontrivial();
      std::string params = vf::JO().str("via", which ? "Pose2D" : "Position2D").num("lambda_major", e[0]).num("lambda_minor", e[1]).num("axis_rad", th_).num("sigma", sigma).done();
      double a = el.getMajorRadius(), b = el.getMinorRadius(), o = el.getOrientation();
      c.obs(a); c.obs(b);
      bool ok = a >= b && b >= 0 && std::isfinite(a) && std::isfinite(b) && std::isfinite(o) && el.getCenterPosition() == p2.position;
      double scale = std::max(e[0], 1e-300);
      if (ok) {
        Eigen::Matrix2d R; R << std::cos(o), -std::sin(o), std::sin(o), std::cos(o);
        Eigen::Matrix2d back = R * Eigen::Vector2d(a * a, b * b).asDiagonal() * R.transpose() / (sigma * sigma);
        double err = (back - C).norm() / scale;
        c.note_max("ellipse_reconstruction_rel_err", err);
        if (!(err <= 1e-12)) ok = false;
      }
      if (!ok) c.violation("uncertaintyEllipse", params, vf::JO().num("major", a).num("minor", b).num("orientation", o).done());
      if (c.want_sample()) c.sample(params);
    }
  }
}

}  // namespace

uint64_t vf_ncases(const std::string& tier) { g_x = tier == "thorough"; return 2 + transforms().size(); }

void vf_run(uint64_t idx, const std::string& tier, vf::Ctx& c) {
  bool th = tier == "thorough"; g_x = th;
  if (idx == 0) reductions(c); else if (idx == 1) ellipses(c, th); else group_action(c, idx - 2);
}

std::string vf_describe(const std::string& tier) {
  g_x = tier == "thorough";
  vf::JO o;
  o.str("catalogue", "attitudes: 10 rolls x 18 pitches (down to 1.1e-3 rad from gimbal lock, and 2.5, -2, 3 beyond +-pi/2) x 10 yaws; 54 rotations (incl. the 24 rotations of the cube, nearly planar: yaw composed with a tilt of 1e-9..8e-4 rad, and a 1e-7 rad rotation) x 3 translations");
  if (g_x) o.str("thorough_extension", "attitudes: + 13 rolls, 25 pitches (step 0.125), 13 yaws; + 12 generic axes x 4 angles; ellipse axis every 0.25 deg");
  o.u("covariances", cov_catalogue().size()).u("attitudes", attitudes().size()).u("positions", positions().size()).u("transforms", transforms().size());
  o.str("covariance_catalogue", "Q diag(d) Q^T, d from 7 patterns over {0,1e-8,1e-4,1,..,1e4} (rank-deficient included), Q identity or a product of 15 Givens rotations (3 variants)");
  o.str("attitudes", "roll {0,0.7,-2.5,3} x pitch {0,0.3,-1.2,pi/2-1.5e-3,pi/2-2e-3,-(pi/2-4e-3),pi/2-0.01} x yaw {0,0.4,-3,5.5}; poses within 1e-3 rad of gimbal lock are outside the quantifier; transformed attitudes are compared as rotations down to 1e-5 rad from the lock");
  o.str("transforms", "rotations: identity, yaw 0.4/-2/pi, roll 0.5, pitch pi/2-0.3-3e-3, three general axes x translations {0,(0.3,-1.2,2),(1e3,-1e3,10)}; compositions with every 4th transform");
  o.str("ellipses", tier == "thorough" ? "9 eigenvalue pairs (rank-1, rank-0, kappa up to 1e8) x axis 0..179.75 deg step 0.25 and axes {1e-15..1e-4} rad away from the coordinate axes x sigma {0.1,1,3,10} x {Position2D,Pose2D}" : "9 eigenvalue pairs (rank-1, rank-0, kappa up to 1e8) x axis 0..179 deg step 1 and axes {1e-15..1e-4} rad away from the coordinate axes x sigma {0.1,1,3,10} x {Position2D,Pose2D}");
  o.str("tolerances", "attitude as rotation: min(1e-9, 2e-14+2e-15/cos(pitch)); ellipse reconstruction 1e-12 relative to the major eigenvalue; reductions exact");
  return o.done();
}

VF_MAIN()
