// C03 -- Lambert conformal conic projection: conformal, true-scale on its standard parallels, origin / central meridian
// mapped as stated, invertible.  Oracle built from central finite differences of the library's own forward map.
#include <romea_core_common/geodesy/LambertConverter.hpp>
#include "vrun.hpp"
#include "georef.hpp"

const char* kProperty = "C03";
using namespace romea::core;

namespace {

const double D = M_PI / 180;
struct Cfg { bool tangent; double e, a; double lat0, lat1, lat2, lon0, k0, x0, y0; std::string name; };

std::vector<Cfg> configs(bool th) {
  std::vector<Cfg> v;
  const double a = 6378137.0;
  std::vector<double> es = {0, 0.04, 0.0818191910428158 /*GRS80*/, 0.08248325676 /*Clarke 1880 IGN*/, 0.1};
  std::vector<double> phi1s; for (double p = 15; p <= 70; p += (th ? 5 : 11)) phi1s.push_back(p);
  for (double e : es) for (int hemi : {1, -1}) {
    for (double p1 : phi1s) for (double dp : {1.0, 2.0, 5.0, 10.0, 20.0}) {
      double p2 = p1 + dp; if (p2 > 75) continue;
      for (int w = 0; w < 3; ++w) for (double lon0 : {-120.0, 3.0, 170.0}) {
        if (!th && ((w + (int)p1 + (int)dp) % 3) && lon0 != 3.0) continue;
        double p0 = w == 0 ? p1 : w == 1 ? (p1 + p2) / 2 : p2;
        bool falseOrigin = ((int)(p1 + dp + w) % 2) == 0;
        v.push_back({false, e, a, hemi * p0 * D, hemi * p1 * D, hemi * p2 * D, lon0 * D, 1, falseOrigin ? 700000.0 : 0.0, falseOrigin ? 6600000.0 : 0.0, "secant"});
      }
    }
    for (double p0 = 15; p0 <= 75; p0 += (th ? 5 : 15)) for (double k0 : {0.99, 0.99987734, 1.0}) for (double lon0 : {0.0, 3.0}) {
      if (!th && lon0 == 0.0 && k0 != 1.0) continue;
      v.push_back({true, e, a, hemi * p0 * D, 0, 0, lon0 * D, k0, 600000.0, 200000.0, "tangent"});
    }
  }
  // named zones
  const double eG = 0.0818191910428158, eC = 0.08248325676, aC = 6378249.2;
  v.push_back({false, eG, a, 46.5 * D, 44 * D, 49 * D, 3 * D, 1, 700000, 6600000, "Lambert-93"});
  for (int z = 42; z <= 50; ++z) v.push_back({false, eG, a, z * D, (z - 0.75) * D, (z + 0.75) * D, 3 * D, 1, 1700000, (z - 41) * 1e6 + 200000, "CC" + std::to_string(z)});
  const double paris = (2 + 20 / 60.0 + 14.025 / 3600.0) * D;
  v.push_back({true, eC, aC, 49.5 * D, 0, 0, paris, 0.99987734, 600000, 200000, "Lambert I"});
  v.push_back({true, eC, aC, 46.8 * D, 0, 0, paris, 0.99987742, 600000, 200000, "Lambert II"});
  v.push_back({true, eC, aC, 44.1 * D, 0, 0, paris, 0.99987750, 600000, 200000, "Lambert III"});
  v.push_back({true, eC, aC, 42.165 * D, 0, 0, paris, 0.99994471, 234.358, 185861.369, "Lambert IV"});
  v.push_back({true, eC, aC, 46.8 * D, 0, 0, paris, 0.99987742, 600000, 2200000, "Lambert II etendu"});
  return v;
}

std::vector<Cfg> g_cfg[2];
const std::vector<Cfg>& cfgs(bool th) { if (g_cfg[th].empty()) g_cfg[th] = configs(th); return g_cfg[th]; }

}  // namespace

// several long-lived converters used in an interleaved way: every call must return what the same call returns on a
// freshly constructed converter used in isolation (the conversions are const and the statement gives them no history)
void interleaved(vf::Ctx& c, int depth, int prefix) {   // prefix = first two operations (18 x 18 cases)
  const double eG = 0.0818191910428158, eC = 0.08248325676;
  auto mk = [&](int i) {
    if (i == 0) return LambertConverter(LambertConverter::SecantProjectionParameters{3 * D, 46.5 * D, 44 * D, 49 * D, 700000, 6600000}, EarthEllipsoid(6378137.0, 6378137.0 * std::sqrt(1 - eG * eG)));
    if (i == 1) return LambertConverter(LambertConverter::TangentProjectionParameters{46.8 * D, 2.337229166 * D, 0.99987742, 600000, 2200000}, EarthEllipsoid(6378249.2, 6378249.2 * std::sqrt(1 - eC * eC)));
    return LambertConverter(LambertConverter::SecantProjectionParameters{3 * D, -30 * D, -25 * D, -35 * D, 0, 0}, EarthEllipsoid(6378137.0, 6378137.0));
  };
  std::vector<WGS84Coordinates> pts = {{46.5 * D, 3 * D}, {46.8 * D, 2.337229166 * D}, {-30 * D, 10 * D}};
  std::vector<Eigen::Vector2d> xy = {{700000, 6600000}, {652000, 2100000}, {500000, -200000}};
  // expected results, each on its own fresh converter
  std::vector<std::array<double, 2>> want(3 * 6);
  for (int ci = 0; ci < 3; ++ci) for (int k = 0; k < 6; ++k) {
    LambertConverter f = mk(ci);
    if (k < 3) { Eigen::Vector2d r = f.toLambert(pts[k]); want[ci * 6 + k] = {r[0], r[1]}; } else { if (ci == 2 && k != 5) { want[ci * 6 + k] = {0, 0}; continue; } if (ci != 2 && k == 5) { want[ci * 6 + k] = {0, 0}; continue; } WGS84Coordinates r = f.toWGS84(xy[k - 3]); want[ci * 6 + k] = {r.latitude, r.longitude}; }
  }
  const int NOPS = 18;
  uint64_t total = 1; for (int i = 2; i < depth; ++i) total *= NOPS;
  std::vector<LambertConverter> conv = {mk(0), mk(1), mk(2)};
  for (uint64_t s = 0; s < total; ++s) {
    std::vector<int> seq(depth); seq[0] = prefix / NOPS; seq[1] = prefix % NOPS; uint64_t r = s; for (int i = 2; i < depth; ++i) { seq[i] = r % NOPS; r /= NOPS; }
    for (int i = 0; i < depth; ++i) {
      int ci = seq[i] / 6, k = seq[i] % 6;
      if (k >= 3 && ((ci == 2) != (k == 5))) continue;   // inverse only on points that belong to the converter's own zone
      std::array<double, 2> got;
      if (k < 3) { Eigen::Vector2d q = conv[ci].toLambert(pts[k]); got = {q[0], q[1]}; } else { WGS84Coordinates q = conv[ci].toWGS84(xy[k - 3]); got = {q.latitude, q.longitude}; }
      c.eval(); c.nontrivial(); c.obs(got[0]); c.obs(got[1]);
      if (memcmp(got.data(), want[seq[i]].data(), sizeof got) != 0) {
        std::vector<std::string> h; for (int j = 0; j <= i; ++j) { char b[64]; snprintf(b, 64, "converter%d.%s(point%d)", seq[j] / 6, seq[j] % 6 < 3 ? "toLambert" : "toWGS84", seq[j] % 3); h.push_back(b); }
        c.violation("LambertConverter.dependsOnOtherConverters", vf::JO().strs("history", h).done(), vf::JO().vec("got", std::vector<double>{got[0], got[1]}).vec("isolated", std::vector<double>{want[seq[i]][0], want[seq[i]][1]}).done());
        return;
      }
    }
  }
}


// ---- T: trajectories on ONE long-lived converter: consecutive positions a graded small step apart; the inverse must stay exact at every fix ---
void trajectory(vf::Ctx& c, int which, bool th) {
  const double eG = 0.0818191910428158, eC = 0.08248325676;
  LambertConverter conv = which == 0 ? LambertConverter(LambertConverter::SecantProjectionParameters{3 * D, 46.5 * D, 44 * D, 49 * D, 700000, 6600000}, EarthEllipsoid(6378137.0, 6378137.0 * std::sqrt(1 - eG * eG)))
                        : which == 1 ? LambertConverter(LambertConverter::TangentProjectionParameters{46.8 * D, 2.337229166 * D, 0.99987742, 600000, 2200000}, EarthEllipsoid(6378249.2, 6378249.2 * std::sqrt(1 - eC * eC)))
                                     : LambertConverter(LambertConverter::SecantProjectionParameters{-63 * D, -30 * D, -25 * D, -35 * D, 0, 0}, EarthEllipsoid(6378137.0, 6378137.0 * std::sqrt(1 - eG * eG)));
  double lat0 = which == 2 ? -31.2 * D : 45.78 * D, lon0 = which == 2 ? -61.0 * D : 3.08 * D;
  const double steps[] = {1e-12, 1e-10, 1e-9, 1e-8, 1.6e-7, 6.3e-7, 2e-6, 1e-5, 1e-4, 1e-3};   // rad: 6 um .. 6 km
  int len = th ? 1500 : 150;
  for (double s : steps) for (int dir = 0; dir < 3; ++dir) for (int pat = 0; pat < 2; ++pat) {
    for (int i = 0; i < len; ++i) {
      double f = pat == 0 ? (double)i : (double)((i % 2) ? (i + 1) / 2 : -(i / 2));
      double lat = lat0 + (dir != 1 ? f * s : 0), lon = lon0 + (dir != 0 ? f * s : 0);
      if (std::fabs(lat - lat0) > 8 * D || std::fabs(lon - lon0) > 30 * D) break;
      c.eval(); c.nontrivial(); c.transitions();
      Eigen::Vector2d p = conv.toLambert(WGS84Coordinates{lat, lon});
      WGS84Coordinates w = conv.toWGS84(p);
      c.obs(w.latitude); c.obs(w.longitude);
      long double el = fabsl((long double)w.latitude - lat), eo = fabsl((long double)w.longitude - lon);
      c.note_max("trajectory_inverse_lat_err_rad", (double)el);
      if (!(el <= 1e-11L) || !(eo <= 1e-11L)) {
        c.violation("LambertConverter.toWGS84.inverse", vf::JO().str("explorer", "trajectory").i("converter", which).num("step_rad", s).str("direction", dir == 0 ? "north" : dir == 1 ? "east" : "north-east").str("pattern", pat ? "back-and-forth" : "drift").i("fix", i).done(), vf::JO().num("lat_err", el).num("lon_err", eo).done());
        break;
      }
    }
    c.traces();
  }
}

uint64_t vf_ncases(const std::string& tier) { return cfgs(tier == "thorough").size() + 324 + 3; }

std::string cfg_json(const Cfg& k) {
  return vf::JO().str("zone", k.name).b("tangent", k.tangent).num("e", k.e).num("lat0_deg", k.lat0 / D).num("lat1_deg", k.lat1 / D).num("lat2_deg", k.lat2 / D).num("lon0_deg", k.lon0 / D).num("k0", k.k0).num("x0", k.x0).num("y0", k.y0).done();
}
std::string vf_case_params(uint64_t idx, const std::string& tier) { if (idx >= cfgs(tier == "thorough").size() + 324) return vf::JO().str("explorer", "trajectory").u("converter", idx - cfgs(tier == "thorough").size() - 324).done(); if (idx >= cfgs(tier == "thorough").size()) return vf::JO().str("explorer", "interleaved converters").u("first_two_operations", idx - cfgs(tier == "thorough").size()).done(); return cfg_json(cfgs(tier == "thorough")[idx]); }

void vf_run(uint64_t idx, const std::string& tier, vf::Ctx& c) {
  if (idx >= cfgs(tier == "thorough").size() + 324) { trajectory(c, (int)(idx - cfgs(tier == "thorough").size() - 324), tier == "thorough"); return; }
  if (idx >= cfgs(tier == "thorough").size()) { interleaved(c, tier == "thorough" ? 6 : 3, (int)(idx - cfgs(tier == "thorough").size())); return; }
  const Cfg& k = cfgs(tier == "thorough")[idx];
  double b = k.a * std::sqrt(1 - k.e * k.e);
  EarthEllipsoid ell(k.a, b);
  {   // the same zone is first set up on ellipsoids with the SAME eccentricity and another semi-major axis (a power of two and 0.1 % away), and on
      // another eccentricity with the same axis: whatever the library keeps from one set-up must not leak into the next
    for (double f : {2.0, 1.001}) { EarthEllipsoid scaled(k.a * f, b * f);
      LambertConverter prime = k.tangent ? LambertConverter(LambertConverter::TangentProjectionParameters{k.lat0, k.lon0, k.k0, k.x0, k.y0}, scaled) : LambertConverter(LambertConverter::SecantProjectionParameters{k.lon0, k.lat0, k.lat1, k.lat2, k.x0, k.y0}, scaled);
      (void)prime.toLambert(WGS84Coordinates{k.lat0, k.lon0}); }
    EarthEllipsoid rounder(k.a, k.a * std::sqrt(1 - 0.25 * k.e * k.e));
    LambertConverter prime2 = k.tangent ? LambertConverter(LambertConverter::TangentProjectionParameters{k.lat0, k.lon0, k.k0, k.x0, k.y0}, rounder) : LambertConverter(LambertConverter::SecantProjectionParameters{k.lon0, k.lat0, k.lat1, k.lat2, k.x0, k.y0}, rounder);
    (void)prime2.toWGS84(prime2.toLambert(WGS84Coordinates{k.lat0, k.lon0}));
  }
  LambertConverter conv = k.tangent ? LambertConverter(LambertConverter::TangentProjectionParameters{k.lat0, k.lon0, k.k0, k.x0, k.y0}, ell)
                                    : LambertConverter(LambertConverter::SecantProjectionParameters{k.lon0, k.lat0, k.lat1, k.lat2, k.x0, k.y0}, ell);
  std::string cj = cfg_json(k);
  // a copy-constructed converter, and a converter of another zone overwritten by assignment, must answer like the original
  LambertConverter copied(conv);
  LambertConverter assigned(LambertConverter::SecantProjectionParameters{3 * D, -30 * D, -25 * D, -35 * D, 10, 20}, EarthEllipsoid(6378137.0, 6378137.0)); (void)assigned.toLambert(WGS84Coordinates{-30 * D, 4 * D}); assigned = conv;
  auto fwd = [&](long double lat, long double lon) { Eigen::Vector2d p = conv.toLambert(WGS84Coordinates{(double)lat, (double)lon}); return Eigen::Matrix<long double, 2, 1>(p[0], p[1]); };
  // local scales along the meridian (h) and the parallel (kk) from central differences of the library's forward map
  auto scales = [&](double lat, double lon, long double& h, long double& kk, long double& cosang, long double& orient) {
    const double d = 1e-5;
    double latp = lat + d, latm = lat - d, lonp = lon + d, lonm = lon - d;   // the actual (rounded) abscissae are used in the quotient
    Eigen::Matrix<long double, 2, 1> dphi = (fwd(latp, lon) - fwd(latm, lon)) / ((long double)latp - latm);
    Eigen::Matrix<long double, 2, 1> dlam = (fwd(lat, lonp) - fwd(lat, lonm)) / ((long double)lonp - lonm);
    long double s = sinl(lat), w = sqrtl(1 - (long double)k.e * k.e * s * s);
    long double M = (long double)k.a * (1 - (long double)k.e * k.e) / (w * w * w), N = (long double)k.a / w;
    h = dphi.norm() / M; kk = dlam.norm() / (N * cosl(lat));
    cosang = dphi.dot(dlam) / (dphi.norm() * dlam.norm());
    orient = dlam[0] * dphi[1] - dlam[1] * dphi[0];   // east x north > 0 : not mirrored
  };
  // origin -> false origin ; central meridian -> x = x0
  {
    c.eval(); c.nontrivial();
    Eigen::Vector2d o = conv.toLambert(WGS84Coordinates{k.lat0, k.lon0});
    if (std::fabs(o[0] - k.x0) > 1e-6 || std::fabs(o[1] - k.y0) > 1e-6) c.violation("LambertConverter.toLambert.origin", cj, vf::JO().num("x", o[0]).num("y", o[1]).done());
  }
  // scale on the standard parallels
  for (double sp : k.tangent ? std::vector<double>{k.lat0} : std::vector<double>{k.lat1, k.lat2}) for (double dl : {0.0, 7.0 * D, -25.0 * D}) {
    long double h, kk, ca, orient; scales(sp, k.lon0 + dl, h, kk, ca, orient);
    c.eval(); c.nontrivial();
    long double want = k.tangent ? k.k0 : 1.0L;
    c.note_max("standard_parallel_scale_err", (double)std::max(fabsl(h - want), fabsl(kk - want)));
    if (fabsl(h - want) > 1e-8L || fabsl(kk - want) > 1e-8L) c.violation("LambertConverter.scaleOnStandardParallel", cj, vf::JO().num("parallel_deg", sp / D).num("dlon_deg", dl / D).num("h", h).num("k", kk).num("want", want).done());
  }
  for (double dphi : {0.0, 1.0, -1.0, 4.0, -4.0, 8.0, -8.0}) for (double dlam : {0.0, 1.0, -1.0, 10.0, -10.0, 30.0, -30.0}) {
    double lat = k.lat0 + dphi * D, lon = k.lon0 + dlam * D;
    std::string params = vf::JO().str("zone", k.name).b("tangent", k.tangent).num("e", k.e).num("lat0_deg", k.lat0 / D).num("lat1_deg", k.lat1 / D).num("lat2_deg", k.lat2 / D).num("lon0_deg", k.lon0 / D).num("k0", k.k0).num("dlat_deg", dphi).num("dlon_deg", dlam).done();
    c.eval(); if (dphi != 0 || dlam != 0) c.nontrivial();
    Eigen::Vector2d p = conv.toLambert(WGS84Coordinates{lat, lon});
    c.obs(p[0]); c.obs(p[1]);
    { Eigen::Vector2d pc = copied.toLambert(WGS84Coordinates{lat, lon}), pa = assigned.toLambert(WGS84Coordinates{lat, lon}); WGS84Coordinates wo = conv.toWGS84(p), wc = copied.toWGS84(p), wa = assigned.toWGS84(p);
      auto eq = [](double a, double b) { return a == b || (a != a && b != b); };
      if (!eq(pc[0], p[0]) || !eq(pc[1], p[1]) || !eq(pa[0], p[0]) || !eq(pa[1], p[1]) || !eq(wc.latitude, wo.latitude) || !eq(wc.longitude, wo.longitude) || !eq(wa.latitude, wo.latitude) || !eq(wa.longitude, wo.longitude))
        c.violation("LambertConverter.copyOrAssignedDiffers", params, vf::JO().vec("original", std::vector<double>{p[0], p[1], wo.latitude, wo.longitude}).vec("copy", std::vector<double>{pc[0], pc[1], wc.latitude, wc.longitude}).vec("assigned", std::vector<double>{pa[0], pa[1], wa.latitude, wa.longitude}).done()); }
    if (!std::isfinite(p[0]) || !std::isfinite(p[1])) { c.violation("LambertConverter.toLambert.notFinite", params, "{}"); continue; }
    if (dlam == 0 && std::fabs(p[0] - k.x0) > 1e-6) c.violation("LambertConverter.toLambert.centralMeridian", params, vf::JO().num("x", p[0]).num("x0", k.x0).done());
    long double h, kk, ca, orient; scales(lat, lon, h, kk, ca, orient);
    c.note_max("conformality_h_minus_k", (double)fabsl(h - kk)); c.note_max("meridian_parallel_cos_angle", (double)fabsl(ca));
    if (fabsl(h - kk) > 1e-8L || fabsl(ca) > 1e-8L || !(orient > 0)) c.violation("LambertConverter.toLambert.conformal", params, vf::JO().num("h", h).num("k", kk).num("cos_angle", ca).num("orientation", orient).done());
    // inverse
    WGS84Coordinates w = conv.toWGS84(p);
    c.obs(w.latitude); c.obs(w.longitude);
    long double el = fabsl((long double)w.latitude - lat), eo = fabsl((long double)w.longitude - lon);
    c.note_max("inverse_lat_err_rad", (double)el); c.note_max("inverse_lon_err_rad", (double)eo);
    if (!(el <= 1e-11L) || !(eo <= 1e-11L)) c.violation("LambertConverter.toWGS84.inverse", params, vf::JO().num("lat", w.latitude).num("want_lat", lat).num("lon", w.longitude).num("want_lon", lon).done());
    if (c.want_sample()) c.sample(params);
  }
}

std::string vf_describe(const std::string& tier) {
  bool th = tier == "thorough";
  vf::JO o;
  o.u("parameter_sets", cfgs(th).size());
  o.str("eccentricities", "0, 0.04, GRS80, Clarke 1880 IGN, 0.1");
  o.str("secant", th ? "phi1 15..70 step 5, phi2-phi1 in {1,2,5,10,20} deg, phi0 in {phi1, mid, phi2}, both hemispheres, lon0 in {-120,3,170} deg, with/without false origin"
                     : "phi1 15..70 step 11, phi2-phi1 in {1,2,5,10,20} deg, phi0 in {phi1, mid, phi2}, both hemispheres, lon0 3 deg (+ -120/170 on a third), with/without false origin");
  o.str("tangent", "phi0 15..75 (both hemispheres), k0 in {0.99, 0.99987734, 1}");
  o.str("named_zones", "Lambert-93, CC42..CC50, Lambert I, II, III, IV, II etendu");
  o.str("points", "dlat {0,+-1,+-4,+-8} deg x dlon {0,+-1,+-10,+-30} deg around the projection origin; standard parallels at dlon {0,7,-25} deg");
  o.str("preceding_setups", "before every converter under test the same zone is set up on ellipsoids with the same eccentricity and a semi-major axis x2 / x1.001, and on another eccentricity with the same axis");
  o.str("trajectories", std::string("three long-lived converters (Lambert-93, Lambert II etendu, a southern secant cone): consecutive fixes {1e-12,1e-10,1e-9,1e-8,1.6e-7,6.3e-7,2e-6,1e-5,1e-4,1e-3} rad apart (6 um .. 6 km) x {north, east, north-east} x {drift, widening back-and-forth} x ") + (th ? "1500" : "150") + " fixes; forward then inverse at every fix within 1e-11 rad");
  o.str("interleaving", th ? "three long-lived converters (Lambert-93/GRS80, Lambert II etendu/Clarke 1880, a southern secant cone on the sphere), every sequence of 6 calls over {toLambert x3 points, toWGS84 x3 points} x 3 converters, each result bit-equal to the same call on a fresh isolated converter" : "three long-lived converters (Lambert-93/GRS80, Lambert II etendu/Clarke 1880, a southern secant cone on the sphere), every sequence of 3 calls over {toLambert x3 points, toWGS84 x3 points} x 3 converters, each result bit-equal to the same call on a fresh isolated converter");
  o.str("oracle", "central differences (1e-5 rad) of the library forward map: |h-k|<=1e-8, meridian/parallel images orthogonal (1e-8) and positively oriented, scale 1 (k0) on the standard parallel(s) within 1e-8; origin and central meridian within 1 micrometre; inverse within 1e-11 rad; termination by watchdog");
  return o.done();
}

VF_MAIN()
