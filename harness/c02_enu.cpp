// C02 -- the ENU converter is a rigid, correctly oriented isometry; anchoring / reset histories behave as stated.
//  L: lattice anchor x local point against the definition of the east/north/up frame.
//  S: every sequence (to a depth) of construct / setAnchor / reset / conversions on one converter against a 15-line model;
//     converter states (flag, anchor bits, transform bits) counted and the fixpoint of the reachable set reported.
#include <romea_core_common/geodesy/ENUConverter.hpp>
#include "vrun.hpp"
#include "georef.hpp"
#include <set>

const char* kProperty = "C02";
using namespace romea::core;

namespace {

const georef::Ell kE{EarthEllipsoid::GRS80.a, EarthEllipsoid::GRS80.b};
using L3 = Eigen::Matrix<long double, 3, 1>; using LM = Eigen::Matrix<long double, 3, 3>;

struct Frame { LM R; L3 t; };
Frame ref_frame(long double lat, long double lon, long double h) {
  georef::V3 up = georef::normal(lat, lon);
  L3 u(up[0], up[1], up[2]), z(0, 0, 1);
  L3 east = z.cross(u).normalized(), north = u.cross(east);
  Frame f; f.R.col(0) = east; f.R.col(1) = north; f.R.col(2) = u;
  georef::V3 p = georef::ecef(kE, lat, lon, h); f.t = L3(p[0], p[1], p[2]);
  return f;
}

std::vector<GeodeticCoordinates> anchors() {
  std::vector<GeodeticCoordinates> v;
  for (double la : {-85.0, -60.0, -30.0, -1e-6, 0.0, 33.3, 45.0, 60.0, 85.0}) for (double lo : {-180.0, -179.999, -90.0, 0.0, 2.5, 90.0, 179.999, 180.0}) for (double h : {-500.0, 0.0, 300.0, 9000.0})
    v.push_back(makeGeodeticCoordinates(la * M_PI / 180, std::max(-M_PI, std::min(M_PI, lo * M_PI / 180)), h));
  return v;
}

// a converter on another ellipsoid (International 1924) that converts the bit-identical geodetic point right before the ENU converter uses it
void prime_other_ellipsoid(const GeodeticCoordinates& g) { static const ECEFConverter hayford(EarthEllipsoid(6378388.0, 6356911.946)); Eigen::Vector3d p = hayford.toECEF(g); (void)hayford.toWGS84(p); }

void lattice(vf::Ctx& c, size_t ia) {
  GeodeticCoordinates A = anchors()[ia];
  prime_other_ellipsoid(A);
  ENUConverter conv(A);
  ENUConverter other(anchors()[(ia * 7 + 3) % anchors().size()]);   // a second converter, anchored elsewhere, used between the calls below
  std::string ap = vf::JO().num("anchor_lat", A.latitude).num("anchor_lon", A.longitude).num("anchor_h", A.altitude).done();
  Frame f = ref_frame(A.latitude, A.longitude, A.altitude);
  const Eigen::Affine3d& T = conv.getEnuToEcefTransform();
  c.eval(); c.nontrivial();
  // frame = (east, north, up) from the definition; proper rotation; translation = ECEF of the anchor
  LM R = T.linear().cast<long double>();
  for (int i = 0; i < 9; ++i) c.obs(T.linear()(i / 3, i % 3));
  if ((R - f.R).norm() > 1e-12L || (R.transpose() * R - LM::Identity()).norm() > 1e-14L || fabsl(R.determinant() - 1) > 1e-14L || (T.translation().cast<long double>() - f.t).norm() > 1e-6L || !conv.isAnchored())
    c.violation("ENUConverter.frame", ap, vf::JO().num("frame_err", (R - f.R).norm()).num("det", R.determinant()).num("translation_err_m", (T.translation().cast<long double>() - f.t).norm()).done());
  // anchor -> origin ; h metres above -> (0,0,h)
  for (double dh : {0.0, 1.0, 250.0, -300.0, 10000.0}) {
    prime_other_ellipsoid(makeGeodeticCoordinates(A.latitude, A.longitude, A.altitude + dh));
    Eigen::Vector3d p = conv.toENU(makeGeodeticCoordinates(A.latitude, A.longitude, A.altitude + dh));
    c.eval(); c.nontrivial();
    if ((p - Eigen::Vector3d(0, 0, dh)).norm() > 1e-6) c.violation("ENUConverter.toENU.aboveAnchor", ap, vf::JO().num("dh", dh).vec("got", std::vector<double>{p[0], p[1], p[2]}).done());
  }
  { Eigen::Vector3d p = conv.toENU(makeWGS84Coordinates(A.latitude, A.longitude)); if (p.norm() > 1e-6) c.violation("ENUConverter.toENU.wgs84Anchor", ap, vf::JO().num("norm", p.norm()).done()); }
  // local points
  std::vector<double> hv = {0, 1, -1, 100, -100, 1e4, -1e4, 1e5, -1e5}, vv = {0, 100, -100, 1e4, -1e4};
  Eigen::Vector3d prevLocal(0, 0, 0), prevEcef = conv.toECEF(prevLocal);
  for (double x : hv) for (double y : hv) for (double z : vv) {
    Eigen::Vector3d p(x, y, z);
    c.eval(); if (std::fabs(A.latitude) > 1.4 || M_PI - std::fabs(A.longitude) < 1e-3) c.nontrivial(); else if (x != 0 && y != 0) c.nontrivial();
    std::string params = vf::JO().num("anchor_lat", A.latitude).num("anchor_lon", A.longitude).num("anchor_h", A.altitude).vec("local", std::vector<double>{x, y, z}).done();
    (void)other.toENU(other.toECEF(p)); (void)other.toWGS84(p);
    Eigen::Vector3d e = conv.toECEF(p), e2 = conv.toECEF(x, y, z);
    for (int i = 0; i < 3; ++i) c.obs(e[i]);
    L3 want = f.t + f.R * p.cast<long double>();
    if ((e.cast<long double>() - want).norm() > 1e-6L || e2 != e) c.violation("ENUConverter.toECEF.vsDefinition", params, vf::JO().num("err_m", (e.cast<long double>() - want).norm()).done());
    // distances preserved
    long double d1 = (e - prevEcef).cast<long double>().norm(), d0 = (p - prevLocal).cast<long double>().norm();
    if (fabsl(d1 - d0) > 1e-6L + 1e-12L * d0) c.violation("ENUConverter.isometry", params, vf::JO().num("local_distance", d0).num("ecef_distance", d1).done());
    prevLocal = p; prevEcef = e;
    // mutual inverses within 1 mm
    (void)other.toENU(makeGeodeticCoordinates(A.latitude, A.longitude, A.altitude));
    Eigen::Vector3d b1 = conv.toENU(e);
    GeodeticCoordinates g = conv.toWGS84(p), g2 = conv.toWGS84(x, y, z);
    Eigen::Vector3d b2 = conv.toENU(g);
    long double r1 = (b1 - p).norm(), r2 = (b2 - p).norm();
    c.note_max("enu_ecef_roundtrip_m", (double)r1); c.note_max("enu_geodetic_roundtrip_m", (double)r2);
    if (!(r1 <= 1e-3L)) c.violation("ENUConverter.toENU(toECEF(p))", params, vf::JO().num("err_m", r1).done());
    if (!(r2 <= 1e-3L) || g2.latitude != g.latitude || g2.longitude != g.longitude || g2.altitude != g.altitude) c.violation("ENUConverter.toENU(toWGS84(p))", params, vf::JO().num("err_m", r2).num("lat", g.latitude).num("lon", g.longitude).num("alt", g.altitude).done());
    georef::Geo rg = georef::geodetic(kE, {want[0], want[1], want[2]});
    if (fabsl(rg.lat - g.latitude) > 1e-9L || georef::angdiff(rg.lon, g.longitude) > 1e-9L || fabsl(rg.h - g.altitude) > 1e-3L) c.violation("ENUConverter.toWGS84.vsDefinition", params, vf::JO().num("lat", g.latitude).num("want_lat", rg.lat).num("lon", g.longitude).num("want_lon", rg.lon).num("alt", g.altitude).num("want_alt", rg.h).done());
    if (c.want_sample()) c.sample(params);
  }
}

// ---- S -----------------------------------------------------------------------------------------------------------
struct Model { bool anchored = false; GeodeticCoordinates a{}; };
bool same_geo(const GeodeticCoordinates& x, const GeodeticCoordinates& y) { return x.latitude == y.latitude && x.longitude == y.longitude && x.altitude == y.altitude; }

struct Alphabet {
  std::vector<GeodeticCoordinates> A, G; std::vector<Eigen::Vector3d> P;
  Alphabet() {
    A = {makeGeodeticCoordinates(0.8, 0.05, 300), makeGeodeticCoordinates(-1.2, 3.1415, -20), makeGeodeticCoordinates(0.0, 0.0, 0.0)};   // A2 = the value-initialised coordinate (sentinel collisions)
    G = {makeGeodeticCoordinates(0.8001, 0.0502, 310), makeGeodeticCoordinates(-1.2, 3.1415, -20), makeGeodeticCoordinates(0.3, 1.0, 0)};
    P = {Eigen::Vector3d(10, -20, 5), Eigen::Vector3d(-5e4, 8e4, -1e3)};
  }
};
// ops: 0..2 setAnchor(A_i); 3 reset; 4..6 toENU(geodetic G_j); 7..9 toENU(wgs84 G_j); 10..12 toENU(ecef of G_j); 13,14 toECEF(P_k); 15,16 toWGS84(P_k); 17 getters
const int NOPS = 21;   // 18: assign the converter to another long-lived converter and continue with that one; 19: continue with a copy-constructed converter
std::string opname(int op) { char b[48]; if (op < 3) snprintf(b, 48, "setAnchor(A%d)", op); else if (op == 3) snprintf(b, 48, "reset()"); else if (op < 7) snprintf(b, 48, "toENU(geodetic G%d)", op - 4); else if (op < 10) snprintf(b, 48, "toENU(wgs84 G%d)", op - 7); else if (op < 13) snprintf(b, 48, "toENU(ecef G%d)", op - 10); else if (op < 15) snprintf(b, 48, "toECEF(P%d)", op - 13); else if (op < 17) snprintf(b, 48, "toWGS84(P%d)", op - 15); else if (op == 17) snprintf(b, 48, "getters"); else if (op == 18) snprintf(b, 48, "other = converter; use other"); else if (op == 19) snprintf(b, 48, "use a copy-constructed converter"); else snprintf(b, 48, "setAnchor(getAnchor())"); return b; }

void sequences(vf::Ctx& c, int depth, int init, int firstOp) {
  static Alphabet al;
  // depth < 0: long run - a fixed script of 30 operations, and every variant with ONE position replaced by any operation (deviation bound 1)
  const bool longRun = depth < 0; if (longRun) depth = 30;
  const int pattern[15] = {0, 4, 8, 12, 13, 16, 17, 1, 10, 14, 3, 6, 15, 19, 7};
  uint64_t total = 1; if (longRun) total = (uint64_t)depth * NOPS + 1; else for (int i = 1; i < depth; ++i) total *= NOPS;
  std::set<uint64_t> statesShallow, statesAll;
  std::vector<int> seq(depth), base(depth); if (!longRun) seq[0] = firstOp;
  for (int i = 0; i < depth; ++i) base[i] = pattern[i % 15];
  for (uint64_t k = 0; k < total; ++k) {
    if (longRun) { seq = base; if (k) seq[(k - 1) / NOPS] = (int)((k - 1) % NOPS); }
    else { uint64_t r = k; for (int i = 1; i < depth; ++i) { seq[i] = r % NOPS; r /= NOPS; } }
    std::unique_ptr<ENUConverter> cur(init ? new ENUConverter(al.A[init - 1]) : new ENUConverter()), other(new ENUConverter(al.A[1]));
    other->toENU(al.G[2]);   // the other converter has a past of its own
#define conv (*cur)
    Model m; if (init) { m.anchored = true; m.a = al.A[init - 1]; }
    for (int i = 0; i < depth; ++i) {
      int op = seq[i];
      bool needsAnchor = (op >= 10 && op < 17);
      if (needsAnchor && !m.anchored) break;        // documented precondition (assert(isAnchored_)): outside the statement
      c.transitions(); c.eval(); if (i) c.nontrivial();
      auto params = [&]() { std::vector<std::string> h; h.push_back(init ? "ENUConverter(A" + std::to_string(init - 1) + ")" : "ENUConverter()"); for (int j = 0; j <= i; ++j) h.push_back(opname(seq[j])); return vf::JO().strs("history", h).done(); };
      bool ok = true;
      Eigen::Vector3d out(0, 0, 0); bool hasOut = false; L3 want(0, 0, 0);
      if (op < 3) prime_other_ellipsoid(al.A[op]); else if (op >= 4 && op < 7) prime_other_ellipsoid(al.G[op - 4]);
      if (op == 20) { if (!m.anchored) break; conv.setAnchor(conv.getAnchor()); }   // the argument aliases the converter's own state; the anchor must not change
      else if (op == 18) { *other = *cur; std::swap(cur, other); }
      else if (op == 19) { std::unique_ptr<ENUConverter> cp(new ENUConverter(*cur)); other = std::move(cur); cur = std::move(cp); }
      else if (op < 3) { conv.setAnchor(al.A[op]); m.anchored = true; m.a = al.A[op]; }
      else if (op == 3) { conv.reset(); m.anchored = false; }
      else if (op < 7) {
        const GeodeticCoordinates& g = al.G[op - 4];
        bool was = m.anchored; if (!was) { m.anchored = true; m.a = g; }
        out = conv.toENU(g); hasOut = true;
        Frame f = ref_frame(m.a.latitude, m.a.longitude, m.a.altitude); georef::V3 p = georef::ecef(kE, g.latitude, g.longitude, g.altitude);
        want = f.R.transpose() * (L3(p[0], p[1], p[2]) - f.t);
        if (!was && out.norm() > 1e-6) { c.violation("ENUConverter.toENU.autoAnchor.notOrigin", params(), vf::JO().num("norm", out.norm()).done()); ok = false; }
      } else if (op < 10) {
        WGS84Coordinates w = makeWGS84Coordinates(al.G[op - 7].latitude, al.G[op - 7].longitude);
        bool was = m.anchored;
        GeodeticCoordinates g = makeGeodeticCoordinates(w, was ? m.a.altitude : conv.getAnchor().altitude);   // altitude-less overload: the converter completes it with its anchor altitude
        if (!was) { m.anchored = true; m.a = g; }
        out = conv.toENU(w); hasOut = true;
        Frame f = ref_frame(m.a.latitude, m.a.longitude, m.a.altitude); georef::V3 p = georef::ecef(kE, g.latitude, g.longitude, g.altitude);
        want = f.R.transpose() * (L3(p[0], p[1], p[2]) - f.t);
        if (!was && out.norm() > 1e-6) { c.violation("ENUConverter.toENU.autoAnchor.notOrigin", params(), vf::JO().num("norm", out.norm()).done()); ok = false; }
      } else if (op < 13) {
        const GeodeticCoordinates& g = al.G[op - 10]; georef::V3 p = georef::ecef(kE, g.latitude, g.longitude, g.altitude);
        out = static_cast<const ENUConverter&>(conv).toENU(Eigen::Vector3d((double)p[0], (double)p[1], (double)p[2])); hasOut = true;
        Frame f = ref_frame(m.a.latitude, m.a.longitude, m.a.altitude); want = f.R.transpose() * (L3((double)p[0], (double)p[1], (double)p[2]) - f.t);
      } else if (op < 15) {
        out = conv.toECEF(al.P[op - 13]); hasOut = true; Frame f = ref_frame(m.a.latitude, m.a.longitude, m.a.altitude); want = f.t + f.R * al.P[op - 13].cast<long double>();
      } else if (op < 17) {
        GeodeticCoordinates g = conv.toWGS84(al.P[op - 15]); Frame f = ref_frame(m.a.latitude, m.a.longitude, m.a.altitude); L3 e = f.t + f.R * al.P[op - 15].cast<long double>();
        georef::Geo rg = georef::geodetic(kE, {e[0], e[1], e[2]});
        c.obs(g.latitude); c.obs(g.longitude); c.obs(g.altitude);
        if (fabsl(rg.lat - g.latitude) > 1e-9L || georef::angdiff(rg.lon, g.longitude) > 1e-9L || fabsl(rg.h - g.altitude) > 1e-3L) { c.violation("ENUConverter.toWGS84.sequence", params(), vf::JO().num("lat", g.latitude).num("want_lat", rg.lat).num("alt", g.altitude).num("want_alt", rg.h).done()); ok = false; }
      }
      if (hasOut) { for (int j = 0; j < 3; ++j) c.obs(out[j]); long double err = (out.cast<long double>() - want).norm(); if (!(err <= 1e-6L)) { c.violation("ENUConverter.conversion.sequence", params(), vf::JO().num("err_m", err).vec("got", std::vector<double>{out[0], out[1], out[2]}).done()); ok = false; } }
      // state after the operation: flag, anchor, transform (== a fresh converter anchored there; identity when un-anchored after reset)
      if (conv.isAnchored() != m.anchored) { c.violation("ENUConverter.isAnchored", params(), vf::JO().b("got", conv.isAnchored()).b("want", m.anchored).done()); ok = false; }
      if (m.anchored) {
        ENUConverter fresh(m.a);
        if (!same_geo(conv.getAnchor(), m.a)) { c.violation("ENUConverter.getAnchor", params(), vf::JO().num("lat", conv.getAnchor().latitude).num("want_lat", m.a.latitude).num("alt", conv.getAnchor().altitude).num("want_alt", m.a.altitude).done()); ok = false; }
        if (conv.getEnuToEcefTransform().matrix() != fresh.getEnuToEcefTransform().matrix()) { c.violation("ENUConverter.transform.vsFresh", params(), "{}"); ok = false; }
      }
      uint64_t h = 11; h = vf::mix64(h, conv.isAnchored());
      if (conv.isAnchored()) { for (double v : {conv.getAnchor().latitude, conv.getAnchor().longitude, conv.getAnchor().altitude}) { uint64_t u; memcpy(&u, &v, 8); h = vf::mix64(h, u); } }
      for (int j = 0; j < 16; ++j) { double v = conv.getEnuToEcefTransform().matrix()(j / 4, j % 4); uint64_t u; memcpy(&u, &v, 8); h = vf::mix64(h, u); }
      if (i < depth - 1) statesShallow.insert(h); statesAll.insert(h);
      if (!ok) break;
    }
    c.traces();
    if (c.want_sample() && k == total / 2) { std::vector<std::string> h; for (int j = 0; j < depth; ++j) h.push_back(opname(seq[j])); c.sample(vf::JO().i("initial_anchor", init).strs("sequence", h).done()); }
    if (c.c.violations > 30) return;
  }
#undef conv
  c.states(statesAll.size());
  c.note_max("states_new_at_last_depth", (double)(statesAll.size() - statesShallow.size()));
}


// ---- T: re-anchoring trajectories on ONE converter: anchors a graded small step apart (a receiver re-anchoring on successive fixes) ------
void anchor_trajectory(vf::Ctx& c, int start) {
  const double lats[] = {0.7991, -0.6458, 1.36, 0.0}; double lat0 = lats[start], lon0 = 0.0538 - 0.8 * start, h0 = 365.0;
  const double steps[] = {1e-12, 2.5e-10, 7e-10, 1e-9, 4e-9, 1e-8, 1e-6, 1e-4};
  ENUConverter conv;
  for (double s : steps) for (int dir = 0; dir < 4; ++dir) for (int k = 0; k < 12; ++k) {
    double f = (k % 2) ? (k + 1) / 2 : -(k / 2);   // widening back-and-forth around the start
    GeodeticCoordinates A = makeGeodeticCoordinates(lat0 + (dir == 0 || dir == 3 ? f * s : 0), lon0 + (dir == 1 || dir == 3 ? f * s : 0), h0 + (dir == 2 ? f * s * 6.4e6 : 0));
    conv.setAnchor(A);
    c.transitions(); c.eval(); c.nontrivial();
    std::string params = vf::JO().str("explorer", "anchor trajectory").num("start_lat", lat0).num("step_rad", s).str("direction", dir == 0 ? "north" : dir == 1 ? "east" : dir == 2 ? "up" : "north-east").i("k", k).done();
    ENUConverter fresh(A);
    Eigen::Vector3d o = conv.toENU(A);
    for (int j = 0; j < 3; ++j) c.obs(o[j]);
    bool ok = conv.isAnchored() && same_geo(conv.getAnchor(), A) && conv.getEnuToEcefTransform().matrix() == fresh.getEnuToEcefTransform().matrix() && o.norm() <= 1e-6;
    if (!ok) { c.violation("ENUConverter.setAnchor.nearbyAnchor", params, vf::JO().num("anchor_maps_to_norm_m", o.norm()).b("anchor_stored", same_geo(conv.getAnchor(), A)).b("frame_equals_fresh", conv.getEnuToEcefTransform().matrix() == fresh.getEnuToEcefTransform().matrix()).done()); return; }
  }
  c.traces();
}

}  // namespace

uint64_t vf_ncases(const std::string& tier) { return anchors().size() + 4 * NOPS + 4 + 4; }

void vf_run(uint64_t idx, const std::string& tier, vf::Ctx& c) {
  {   // the first geodetic conversion of every process is made by a converter on another ellipsoid (International 1924): process-wide state must not leak into ENU
    ECEFConverter hayford(EarthEllipsoid(6378388.0, 6356911.946)); GeodeticCoordinates g0 = hayford.toWGS84(hayford.toECEF(makeGeodeticCoordinates(0.8, 0.05, 300.0))); (void)g0;
  }
  size_t na = anchors().size();
  if (idx < na) lattice(c, idx);
  else if (idx >= na + 4 * NOPS + 4) anchor_trajectory(c, (int)(idx - na - 4 * NOPS - 4));
  else { int k = (int)(idx - na); if (k >= 4 * NOPS) sequences(c, -1, k - 4 * NOPS, 0); else sequences(c, tier == "thorough" ? 5 : 4, k / NOPS, k % NOPS); }
}

std::string vf_describe(const std::string& tier) {
  vf::JO o;
  o.u("anchors", anchors().size()).str("anchor_lattice", "lat {-85,-60,-30,-1e-6,0,33.3,45,60,85} deg x lon {-180,-179.999,-90,0,2.5,90,179.999,180} deg x h {-500,0,300,9000} m");
  o.str("local_points", "{0,+-1,+-100,+-1e4,+-1e5}^2 x {0,+-100,+-1e4} m");
  o.i("sequence_depth", tier == "thorough" ? 5 : 4).str("sequence_ops", "21 operations (setAnchor(getAnchor()) with the argument aliasing the converter, setAnchor x3, reset, toENU geodetic x3 / wgs84 x3 / ecef x3, toECEF x2, toWGS84 x2, getters, assign to another long-lived converter and continue with it, continue with a copy-constructed converter) from 4 initial constructions; const conversions only when the model says anchored; plus, from each construction, a fixed script of 30 operations and every variant with ONE position replaced by any operation");
  o.str("anchor_trajectories", "one converter re-anchored 12 times per (step, direction) on anchors {1e-12,2.5e-10,7e-10,1e-9,4e-9,1e-8,1e-6,1e-4} rad (6 um .. 640 m) apart, north / east / up / north-east, from 4 starts: anchor stored, frame bit-equal to a fresh converter, anchor maps to the origin within 1 um");
  o.str("oracle", "frame = (east,north,up) from the definition within 1e-12; conversions within 1e-6 m of the long-double reference; state after every step equals a fresh converter anchored at the model anchor (bitwise)");
  return o.done();
}

VF_MAIN()
