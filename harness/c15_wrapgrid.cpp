// C15 -- WrappableGrid behaves as a fixed window over an unbounded map that each translation slides.
// Explicit-state exploration of the real grid object against a window model.
//  S1: all reachable index-offset states; from every state every offset vector; cells refilled with unique tags
//      before each translation so that every wrongly blanked / kept / addressed cell is visible in that very step.
//  S2: every sequence of <= depth translations interleaved with {no write, single write, full rewrite}, no refill,
//      each translation with a fresh or the default empty value; canonical states (offsets + value pattern) deduplicated.
#include <romea_core_common/containers/grid/WrappableGrid.hpp>
#include "vrun.hpp"
#include <unordered_set>
#include <deque>

const char* kProperty = "C15";
using namespace romea::core;

namespace {

template <size_t DIM> struct Model {
  std::array<int, DIM> n;
  std::vector<int> cell;                 // logical window, x fastest
  std::array<long, DIM> accum;           // accumulated offset
  explicit Model(const std::array<int, DIM>& nn) : n(nn) {
    size_t t = 1; for (auto v : n) t *= v; cell.assign(t, 0); accum.fill(0);
  }
  size_t lin(const std::array<int, DIM>& i) const { size_t l = 0, m = 1; for (size_t d = 0; d < DIM; ++d) { l += i[d] * m; m *= n[d]; } return l; }
  void translate(const std::array<int, DIM>& k, int empty) {
    std::vector<int> nw(cell.size(), empty);
    std::array<int, DIM> i; i.fill(0);
    for (size_t l = 0; l < cell.size(); ++l) {
      size_t r = l; for (size_t d = 0; d < DIM; ++d) { i[d] = r % n[d]; r /= n[d]; }
      bool in = true; std::array<int, DIM> s;
      for (size_t d = 0; d < DIM; ++d) { long v = (long)i[d] + k[d]; if (v < 0 || v >= n[d]) in = false; s[d] = (int)v; }
      if (in) nw[l] = cell[lin(s)];
    }
    cell.swap(nw);
    for (size_t d = 0; d < DIM; ++d) accum[d] += k[d];
  }
};

template <size_t DIM> using G = WrappableGrid<int, DIM>;
template <size_t DIM> typename G<DIM>::CellIndexes ci(const std::array<int, DIM>& i) {
  typename G<DIM>::CellIndexes c; for (size_t d = 0; d < DIM; ++d) c[d] = i[d]; return c;
}
template <size_t DIM> std::array<int, DIM> unlin(size_t l, const std::array<int, DIM>& n) {
  std::array<int, DIM> i; for (size_t d = 0; d < DIM; ++d) { i[d] = l % n[d]; l /= n[d]; } return i;
}
template <size_t DIM> std::string arr(const std::array<int, DIM>& a) { std::vector<int> v(a.begin(), a.end()); return vf::jarr(v); }

struct Op { std::vector<int> off; int write; bool defEmpty; };   // write: 0 none, 1 single cell, 2 full rewrite (before the translation)
std::string ops_json(const std::vector<Op>& ops) {
  std::string s = "[";
  for (size_t i = 0; i < ops.size(); ++i) {
    if (i) s += ",";
    s += vf::JO().raw("translate", vf::jarr(ops[i].off)).i("write_before", ops[i].write).b("default_empty", ops[i].defEmpty).done();
  }
  return s + "]";
}

// compare every logical cell, the reported offset and the raw buffer; returns false on violation
template <size_t DIM>
bool compare(vf::Ctx& c, G<DIM>& g, const Model<DIM>& m, const std::vector<Op>& ops, const char* phase, bool firstAccess = false) {
  bool ok = true;
  if (firstAccess) {   // every cell as the FIRST access after the operation, each on its own copy of the grid (access-order dependence, e.g. a cached index)
    // grids above 32 cells: the first-access check visits every 7th cell, shifted by the number of operations (the plain comparison below still reads every cell)
    const size_t faStride = m.cell.size() > 32 ? 7 : 1;
    for (size_t l = (m.cell.size() > 32 ? ops.size() % 7 : 0); l < m.cell.size() && ok; l += faStride) {
      G<DIM> copy = g;
      int v = copy(ci<DIM>(unlin<DIM>(l, m.n)));
      if (v != m.cell[l]) {
        c.violation(std::string("WrappableGrid.translate.cells.firstAccess.") + phase, vf::JO().i("dim", DIM).raw("size", arr<DIM>(m.n)).raw("ops", ops_json(ops)).i("nops", ops.size()).done(), vf::JO().u("cell", l).i("got", v).i("want", m.cell[l]).done());
        ok = false;
      }
      // a write as the first access must land in that very cell
      G<DIM> copy2 = g; copy2(ci<DIM>(unlin<DIM>(l, m.n))) = -777;
      for (size_t k = 0; k < m.cell.size() && ok; ++k) { int w = copy2(ci<DIM>(unlin<DIM>(k, m.n))); if (w != (k == l ? -777 : m.cell[k])) { c.violation(std::string("WrappableGrid.write.firstAccess.") + phase, vf::JO().i("dim", DIM).raw("size", arr<DIM>(m.n)).raw("ops", ops_json(ops)).i("nops", ops.size()).done(), vf::JO().u("written_cell", l).u("read_cell", k).i("got", w).done()); ok = false; } }
    }
    if (!ok) return false;
  }
  std::vector<int> got(m.cell.size());
  for (size_t l = 0; l < m.cell.size(); ++l) { got[l] = g(ci<DIM>(unlin<DIM>(l, m.n))); c.obs((uint64_t)got[l]); }
  {   // the same cells through the const accessor
    const G<DIM>& cg = g; std::vector<int> gotc(m.cell.size());
    for (size_t l = 0; l < m.cell.size(); ++l) gotc[l] = cg(ci<DIM>(unlin<DIM>(l, m.n)));
    if (gotc != got) { c.violation(std::string("WrappableGrid.constAccessor.") + phase, vf::JO().i("dim", DIM).raw("size", arr<DIM>(m.n)).raw("ops", ops_json(ops)).i("nops", ops.size()).done(), vf::JO().vec("const_read", gotc).vec("non_const_read", got).done()); ok = false; }
  }
  auto params = [&]() { return vf::JO().i("dim", DIM).raw("size", arr<DIM>(m.n)).raw("ops", ops_json(ops)).i("nops", ops.size()).done(); };
  if (got != m.cell) {
    c.violation(std::string("WrappableGrid.translate.cells.") + phase, params(), vf::JO().vec("got", got).vec("want", m.cell).done());
    ok = false;
  }
  auto off = g.getIndexOffsetAlongAxes();
  for (size_t d = 0; d < DIM; ++d) {
    long want = ((m.accum[d] % m.n[d]) + m.n[d]) % m.n[d];
    if ((long)off[d] != want) {
      c.violation(std::string("WrappableGrid.getIndexOffsetAlongAxes.") + phase, params(), vf::JO().i("axis", d).i("got", off[d]).i("want", want).done());
      ok = false; break;
    }
  }
  std::vector<int> a = g.getBuffer(), b = m.cell;
  std::sort(a.begin(), a.end()); std::sort(b.begin(), b.end());
  if (ok && a != b) { c.violation(std::string("WrappableGrid.buffer.") + phase, params(), "{}"); ok = false; }
  return ok;
}

template <size_t DIM> std::vector<std::array<int, DIM>> offsets(const std::array<int, DIM>& n, int mult, int add) {
  std::vector<std::array<int, DIM>> v;
  vf::Radix r; for (size_t d = 0; d < DIM; ++d) r.dims.push_back(2 * (mult * n[d] + add) + 1);
  for (uint64_t k = 0; k < r.total(); ++k) {
    auto t = r.decode(k); std::array<int, DIM> o;
    for (size_t d = 0; d < DIM; ++d) o[d] = (int)t[d] - (mult * n[d] + add);
    v.push_back(o);
  }
  return v;
}

// ---- S1: reachable offset states, refill before every translation -------------------------------------------
template <size_t DIM> void s1(vf::Ctx& c, const std::array<int, DIM>& n, int mult, int add) {
  struct Node { G<DIM> g; Model<DIM> m; std::vector<Op> path; };
  auto key = [&](G<DIM>& g, const Model<DIM>& m) {
    uint64_t h = 7; auto off = g.getIndexOffsetAlongAxes();
    for (size_t d = 0; d < DIM; ++d) { h = vf::mix64(h, off[d]); h = vf::mix64(h, ((m.accum[d] % m.n[d]) + m.n[d]) % m.n[d]); }
    return h;
  };
  std::unordered_set<uint64_t> seen;
  std::deque<Node> frontier;
  Node init{G<DIM>(ci<DIM>(n)), Model<DIM>(n), {}};
  seen.insert(key(init.g, init.m)); c.states();
  frontier.push_back(init);
  auto offs = offsets<DIM>(n, mult, add);
  int tag = 1;
  while (!frontier.empty()) {
    Node cur = frontier.front(); frontier.pop_front();
    for (auto& o : offs) {
      Node nx = cur;
      for (size_t l = 0; l < nx.m.cell.size(); ++l) { nx.m.cell[l] = tag; nx.g(ci<DIM>(unlin<DIM>(l, n))) = tag; ++tag; }
      int empty = tag++;
      nx.path.push_back(Op{std::vector<int>(o.begin(), o.end()), 2, false});
      nx.m.translate(o, empty);
      typename G<DIM>::CellIndexesOffset eo; for (size_t d = 0; d < DIM; ++d) eo[d] = o[d];
      nx.g.translate(eo, empty);
      c.transitions(); c.eval(); c.traces();
      bool surv = false, ent = false;
      for (int v : nx.m.cell) { if (v == empty) ent = true; else surv = true; }
      if (surv && ent) c.nontrivial();
      if (!compare<DIM>(c, nx.g, nx.m, nx.path, "refilled", true)) continue;   // do not expand a broken state
      uint64_t k = key(nx.g, nx.m);
      if (seen.insert(k).second) { c.states(); if (c.want_sample()) c.sample(vf::JO().str("explorer", "S1").raw("size", arr<DIM>(n)).raw("path", ops_json(nx.path)).done()); frontier.push_back(nx); }
    }
  }
}

// ---- S2: sequences without refill, canonical-state deduplication ----------------------------------------------
template <size_t DIM> struct S2 {
  vf::Ctx& c; std::array<int, DIM> n; int depth; std::vector<std::array<int, DIM>> offs; bool writes;
  std::unordered_set<uint64_t> seen; int tag = 1000;
  std::unique_ptr<G<DIM>> spare;   // a grid with a past of its own: every other explored grid is obtained by assignment over a copy of it instead of copy construction
  uint64_t canon(G<DIM>& g, const Model<DIM>& m, int remaining) {
    uint64_t h = 1469598103934665603ULL + remaining;
    auto off = g.getIndexOffsetAlongAxes();
    for (size_t d = 0; d < DIM; ++d) { h = vf::mix64(h, off[d]); h = vf::mix64(h, ((m.accum[d] % m.n[d]) + m.n[d]) % m.n[d]); }
    std::map<int, int> ren;   // relabel values by first occurrence (the grid never inspects values)
    for (int v : m.cell) { auto it = ren.find(v); int id = (it == ren.end()) ? (ren[v] = (v == 0 ? -1 : (int)ren.size())) : it->second; h = vf::mix64(h, (uint64_t)(id + 2)); }
    return h;
  }
  void rec(G<DIM> g, Model<DIM> m, std::vector<Op>& ops, int remaining) {
    if (!remaining) return;
    for (auto& o : offs) {
      for (int w = 0; w < (writes ? 3 : 1); ++w) {
        for (int de = 0; de < 2; ++de) {
          if (!spare) { spare.reset(new G<DIM>(ci<DIM>(n))); for (size_t l = 0; l < m.cell.size(); ++l) (*spare)(ci<DIM>(unlin<DIM>(l, n))) = -7; typename G<DIM>::CellIndexesOffset so; for (size_t d = 0; d < DIM; ++d) so[d] = 1; spare->translate(so, -8); }
          G<DIM> g2 = (ops.size() + w + de) % 2 ? G<DIM>(*spare) : G<DIM>(g); Model<DIM> m2 = m;
          if ((ops.size() + w + de) % 2) g2 = g;   // copy-assignment over a grid that holds other data at another offset
          if (w == 1) { size_t l = (size_t)(tag % m2.cell.size()); m2.cell[l] = tag; g2(ci<DIM>(unlin<DIM>(l, n))) = tag; ++tag; }
          if (w == 2) for (size_t l = 0; l < m2.cell.size(); ++l) { m2.cell[l] = tag; g2(ci<DIM>(unlin<DIM>(l, n))) = tag; ++tag; }
          int empty = de ? 0 : tag++;
          ops.push_back(Op{std::vector<int>(o.begin(), o.end()), w, de == 1});
          m2.translate(o, empty);
          typename G<DIM>::CellIndexesOffset eo; for (size_t d = 0; d < DIM; ++d) eo[d] = o[d];
          if (de) g2.translate(eo); else g2.translate(eo, empty);
          c.transitions(); c.eval();
          if (ops.size() >= 2) c.nontrivial();
          bool ok = compare<DIM>(c, g2, m2, ops, "sequence");
          if (ok) {
            if (remaining == 1) c.traces();
            if (seen.insert(canon(g2, m2, remaining - 1)).second) { c.states(); rec(g2, m2, ops, remaining - 1); }
            if (c.want_sample() && ops.size() == (size_t)depth) c.sample(vf::JO().str("explorer", "S2").raw("size", arr<DIM>(n)).raw("ops", ops_json(ops)).done());
          }
          ops.pop_back();
          if (c.c.violations > 50) return;
        }
      }
    }
  }
};

template <size_t DIM> void s2(vf::Ctx& c, const std::array<int, DIM>& n, int depth, bool writes, size_t first) {
  S2<DIM> s{c, n, depth, offsets<DIM>(n, 1, 1), writes};
  // the case fixes the first translation (sharding); everything below it is explored
  G<DIM> g(ci<DIM>(n)); Model<DIM> m(n);
  for (size_t l = 0; l < m.cell.size(); ++l) { m.cell[l] = s.tag; g(ci<DIM>(unlin<DIM>(l, n))) = s.tag; ++s.tag; }
  auto o = s.offs[first];
  std::vector<Op> ops;
  for (int de = 0; de < 2; ++de) {
    G<DIM> g2 = g; Model<DIM> m2 = m;
    int empty = de ? 0 : s.tag++;
    ops.push_back(Op{std::vector<int>(o.begin(), o.end()), 2, de == 1});
    m2.translate(o, empty);
    typename G<DIM>::CellIndexesOffset eo; for (size_t d = 0; d < DIM; ++d) eo[d] = o[d];
    if (de) g2.translate(eo); else g2.translate(eo, empty);
    c.transitions(); c.eval(); c.states();
    if (compare<DIM>(c, g2, m2, ops, "first", true)) s.rec(g2, m2, ops, depth - 1);
    ops.pop_back();
  }
}

struct Case { int kind; int dim; std::array<int, 3> n; int depth; bool writes; size_t first; int mult, add; };
std::vector<Case> g_cases[2];

const std::vector<Case>& cases(bool th) {
  auto& v = g_cases[th];
  if (!v.empty()) return v;
  // S1
  int m2 = th ? 8 : 4, m3 = th ? 4 : 3;
  for (int x = 1; x <= m2; ++x) for (int y = 1; y <= m2; ++y) v.push_back({1, 2, {x, y, 1}, 0, false, 0, th ? 2 : 1, th ? 0 : 1});
  for (int x = 1; x <= m3; ++x) for (int y = 1; y <= m3; ++y) for (int z = 1; z <= m3; ++z) v.push_back({1, 3, {x, y, z}, 0, false, 0, th ? 2 : 1, th ? 0 : 1});
  // S1 on elongated / larger grids (rows of 8 cells, z slabs of 32+ cells: block-wise fills) in both tiers
  for (auto sz : std::vector<std::array<int, 3>>{{8, 1, 1}, {8, 2, 1}, {8, 3, 1}, {1, 8, 1}, {3, 8, 1}, {7, 5, 1}, {5, 8, 1}}) if (!th || sz[0] > 8) v.push_back({1, 2, sz, 0, false, 0, 1, 1});
  for (auto sz : std::vector<std::array<int, 3>>{{6, 6, 2}, {8, 4, 2}, {2, 2, 8}, {8, 1, 2}}) v.push_back({1, 3, sz, 0, false, 0, 1, 1});
  // S2: 2D sizes 1..4, 3D sizes 1..3, offsets [-(n+1), n+1]
  for (int x = 1; x <= 4; ++x) for (int y = 1; y <= 4; ++y) {
    size_t no = (size_t)(2 * x + 3) * (2 * y + 3);
    int depth = th ? 3 : (x * y <= 6 ? 3 : 2);
    for (size_t f = 0; f < no; ++f) v.push_back({2, 2, {x, y, 1}, depth, true, f, 1, 1});
  }
  for (int x = 1; x <= 3; ++x) for (int y = 1; y <= 3; ++y) for (int z = 1; z <= 3; ++z) {
    size_t no = (size_t)(2 * x + 3) * (2 * y + 3) * (2 * z + 3);
    int depth = th ? 3 : 2;
    bool writes = th ? (x * y * z <= 8) : (x * y * z <= 12);
    for (size_t f = 0; f < no; ++f) v.push_back({2, 3, {x, y, z}, depth, writes, f, 1, 1});
  }
  return v;
}

}  // namespace

uint64_t vf_ncases(const std::string& tier) { return cases(tier == "thorough").size(); }

void vf_run(uint64_t idx, const std::string& tier, vf::Ctx& c) {
  const Case& k = cases(tier == "thorough")[idx];
  if (k.dim == 2) {
    std::array<int, 2> n{k.n[0], k.n[1]};
    if (k.kind == 1) s1<2>(c, n, k.mult, k.add); else s2<2>(c, n, k.depth, k.writes, k.first);
  } else {
    std::array<int, 3> n{k.n[0], k.n[1], k.n[2]};
    if (k.kind == 1) s1<3>(c, n, k.mult, k.add); else s2<3>(c, n, k.depth, k.writes, k.first);
  }
}

std::string vf_describe(const std::string& tier) {
  bool th = tier == "thorough";
  vf::JO o;
  o.str("S1", th ? "2D sizes 1..8 per axis, 3D 1..4; offsets per axis in [-2n,2n]; BFS to fixpoint over index-offset states, every offset from every state, cells refilled with unique tags"
                 : "2D sizes 1..4 per axis, 3D 1..3; offsets per axis in [-(n+1),n+1]; BFS to fixpoint over index-offset states, every offset from every state, cells refilled with unique tags");
  o.str("S2", th ? "2D sizes 1..4, 3D 1..3, all sequences of 3 translations, offsets [-(n+1),n+1], writes {none,single,full} before each translation (3D: writes only for <=8 cells), empty value fresh or default"
                 : "2D sizes 1..4 (depth 3 up to 6 cells, else 2), 3D 1..3 depth 2, offsets [-(n+1),n+1], writes {none,single,full} (3D up to 12 cells), empty value fresh or default");
  o.str("S1_larger_grids", "also 2D 8x1, 8x2, 8x3, 1x8, 3x8, 7x5, 5x8 (quick; the thorough tier covers all sizes to 8x8) and 3D 6x6x2, 8x4x2, 2x2x8, 8x1x2 (both tiers), offsets [-(n+1),n+1]; above 32 cells the first-access check visits every 7th cell");
  o.str("accessors", "every comparison reads all cells through the non-const and through the const accessor");
  o.str("object_forms", "every explored grid is a copy of its predecessor: alternately copy-constructed, and copy-assigned over a grid that holds other data at another offset");
  o.str("first_access", "S1 and the first translation of S2: every cell read (and written) as the first access after the translation, each on its own copy of the grid");
  o.str("model", "window array: new[i] = old[i+k] if inside else the translation's empty value; accumulated offset mod size");
  return o.done();
}

VF_MAIN()
