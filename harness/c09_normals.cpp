// C09 -- estimated normals are unit, sensor-facing, orthogonal to the surface; curvature in range; rotation equivariant.
#include <romea_core_common/pointset/algorithms/NormalAndCurvatureEstimation.hpp>
#include "vrun.hpp"
#include <Eigen/Dense>

const char* kProperty = "C09";
using namespace romea::core;

namespace {

using LD = long double;
struct Cloud { std::string name; std::vector<std::array<double, 3>> pts; bool planar; std::array<double, 3> normal; };   // normal: unit surface normal (sign free) when planar

void plane_patch(Cloud& c, std::array<double, 3> n, double d, int nu, int nv, double step) {
  // orthonormal basis (u,v) of the plane n.x = d
  Eigen::Vector3d nn(n[0], n[1], n[2]); nn.normalize();
  Eigen::Vector3d a = std::fabs(nn[0]) < 0.9 ? Eigen::Vector3d(1, 0, 0) : Eigen::Vector3d(0, 1, 0);
  Eigen::Vector3d u = (a - a.dot(nn) * nn).normalized(), v = nn.cross(u);
  for (int i = 0; i < nu; ++i) for (int j = 0; j < nv; ++j) {
    double s = (i - (nu - 1) / 2.0) * step + 0.013 * ((i * 7 + j * 3) % 5), t = (j - (nv - 1) / 2.0) * step + 0.017 * ((i * 5 + j * 11) % 7);   // slightly irregular: no exact k-NN ties
    Eigen::Vector3d p = d * nn + s * u + t * v; c.pts.push_back({p[0], p[1], p[2]});
  }
  c.planar = true; c.normal = {nn[0], nn[1], nn[2]};
}

std::vector<Cloud> clouds3(bool th) {
  std::vector<Cloud> v;
  const std::array<double, 3> axes[6] = {{1, 0, 0}, {-1, 0, 0}, {0, 1, 0}, {0, -1, 0}, {0, 0, 1}, {0, 0, -1}};
  for (auto& ax : axes) for (double d : {0.5, 2.0, 50.0}) { Cloud c; c.name = "plane normal (" + std::to_string((int)ax[0]) + "," + std::to_string((int)ax[1]) + "," + std::to_string((int)ax[2]) + ") at distance " + std::to_string(d); plane_patch(c, ax, d, 9, 8, 0.11); v.push_back(c); }
  for (double sgn : {1.0, -1.0}) { Cloud c; c.name = sgn > 0 ? "tilted plane (1,2,2)/3 at 2" : "tilted plane -(1,2,2)/3 at 0.7"; plane_patch(c, {sgn * 1, sgn * 2, sgn * 2}, sgn > 0 ? 2.0 : 0.7, 12, 11, 0.09); v.push_back(c); }
  { Cloud c; c.name = "large plane 44x45 at z=3"; plane_patch(c, {0, 0, 1}, 3.0, 44, 45, 0.05); v.push_back(c); }
  { Cloud c; c.name = "far plane at 80 m sampled every 2 cm"; plane_patch(c, {0, 1, 0}, 80.0, 15, 15, 0.02); v.push_back(c); }
  { Cloud c; c.name = "organised scan (floor then wall, 12 mm spacing, index-ordered) 2.5 km from the origin"; c.planar = false;
    for (int j = 0; j < 40; ++j) {   // one scan line after the other; each line runs along the floor and then up the wall
      for (int i = 0; i < 20; ++i) c.pts.push_back({2500 + i * 0.012 + 0.0011 * ((i * 3 + j) % 4), 300 + j * 0.012 + 0.0013 * ((i + j * 5) % 3), -1.5});
      for (int i = 1; i < 20; ++i) c.pts.push_back({2500.24, 300 + j * 0.012 + 0.0013 * ((i + j * 5) % 3), -1.5 + i * 0.012 + 0.0011 * ((i * 3 + j) % 4)});
    }
    v.push_back(c); }
  { Cloud c; c.name = "tilted plane (2,-1,2)/3 at 3 with every 9th point stored three times (first points included)"; plane_patch(c, {2, -1, 2}, 3.0, 13, 12, 0.08);
    std::vector<std::array<double, 3>> q; for (size_t i = 0; i < c.pts.size(); ++i) { q.push_back(c.pts[i]); if (i % 9 == 0) { q.push_back(c.pts[i]); if (i % 18 == 0) q.push_back(c.pts[i]); } }
    for (size_t i = 0; i < c.pts.size(); i += 18) if (i % 18 != 0 || true) { if (i % 36 == 18) q.push_back(c.pts[i]); }   // the third copy of some points is stored far from the first two
    c.pts = q; v.push_back(c); }
  { Cloud c; c.name = "two planes meeting (roof)"; c.planar = false; for (int i = 0; i < 21; ++i) for (int j = 0; j < 10; ++j) { double x = (i - 10) * 0.1 + 0.007 * ((i * 3 + j) % 4), y = j * 0.1 + 0.009 * ((i + j * 5) % 3); c.pts.push_back({x, y, 4 - 0.5 * std::fabs(x)}); } v.push_back(c); }
  { Cloud c; c.name = "sphere patch radius 5 about (0,0,9)"; c.planar = false; for (int i = 0; i < 15; ++i) for (int j = 0; j < 15; ++j) { double a = (i - 7) * 0.04 + 0.003 * ((i * 5 + j) % 7), b = (j - 7) * 0.04 + 0.002 * ((i + 3 * j) % 5); c.pts.push_back({5 * std::sin(a), 5 * std::sin(b) * std::cos(a), 9 - 5 * std::cos(a) * std::cos(b)}); } v.push_back(c); }
  { Cloud c; c.name = "full sphere radius 2 about (1,-3,4) (silhouette points included)"; c.planar = false; for (int i = 0; i < 400; ++i) { double z = 1 - 2 * (i + 0.5) / 400, r = std::sqrt(1 - z * z), a = i * 2.399963229728653; c.pts.push_back({1 + 2 * r * std::cos(a), -3 + 2 * r * std::sin(a), 4 + 2 * z}); } v.push_back(c); }
  { Cloud c; c.name = "plane z=3 with ripple 0.01"; c.planar = false; for (int i = 0; i < 16; ++i) for (int j = 0; j < 16; ++j) { double x = (i - 8) * 0.1 + 0.011 * ((i * 7 + j) % 5), y = (j - 8) * 0.1 + 0.007 * ((i + j * 3) % 4); c.pts.push_back({x, y, 3 + 0.01 * std::sin(7 * x) * std::cos(5 * y)}); } v.push_back(c); }
  return v;
}
std::vector<Cloud> clouds2(bool th) {
  std::vector<Cloud> v;
  const std::array<double, 2> axes[4] = {{1, 0}, {-1, 0}, {0, 1}, {0, -1}};
  for (auto& ax : axes) for (double d : {0.5, 2.0, 50.0}) { Cloud c; c.name = "line normal (" + std::to_string((int)ax[0]) + "," + std::to_string((int)ax[1]) + ") at distance " + std::to_string(d); c.planar = true; c.normal = {ax[0], ax[1], 0};
    for (int i = 0; i < 41; ++i) { double s = (i - 20) * 0.05 + 0.006 * ((i * 7) % 5); c.pts.push_back({d * ax[0] - s * ax[1], d * ax[1] + s * ax[0], 0}); } v.push_back(c); }
  { Cloud c; c.name = "tilted line (3,4)/5 at 0.6"; c.planar = true; c.normal = {0.6, 0.8, 0}; for (int i = 0; i < 61; ++i) { double s = (i - 30) * 0.04 + 0.005 * ((i * 3) % 7); c.pts.push_back({0.6 * 0.6 - s * 0.8, 0.6 * 0.8 + s * 0.6, 0}); } v.push_back(c); }
  { Cloud c; c.name = "long line 2000 points at y=-4"; c.planar = true; c.normal = {0, -1, 0}; for (int i = 0; i < 2000; ++i) c.pts.push_back({(i - 1000) * 0.01 + 0.002 * ((i * 7) % 3), -4, 0}); v.push_back(c); }
  { Cloud c; c.name = "far line at 110 m sampled every 2 cm"; c.planar = true; c.normal = {1, 0, 0}; for (int i = 0; i < 60; ++i) c.pts.push_back({110, (i - 30) * 0.02 + 0.003 * ((i * 7) % 3), 0}); v.push_back(c); }
  { Cloud c; c.name = "corner (two lines meeting)"; c.planar = false; for (int i = 0; i < 40; ++i) { double s = i * 0.05 + 0.004 * ((i * 3) % 5); c.pts.push_back({2 + s, 3, 0}); c.pts.push_back({2, 3 + s + 0.021, 0}); } v.push_back(c); }
  { Cloud c; c.name = "circle arc radius 4 about (0,7)"; c.planar = false; for (int i = 0; i < 80; ++i) { double a = (i - 40) * 0.02 + 0.0017 * ((i * 5) % 7); c.pts.push_back({4 * std::sin(a), 7 - 4 * std::cos(a), 0}); } v.push_back(c); }
  { Cloud c; c.name = "full circle radius 2 about (5,1) (silhouette points included)"; c.planar = false; for (int i = 0; i < 150; ++i) { double a = i * (2 * M_PI / 150) + 0.004 * ((i * 5) % 7); c.pts.push_back({5 + 2 * std::cos(a), 1 + 2 * std::sin(a), 0}); } v.push_back(c); }
  { Cloud c; c.name = "line y=3 with ripple 0.01"; c.planar = false; for (int i = 0; i < 120; ++i) { double x = (i - 60) * 0.03 + 0.004 * ((i * 7) % 5); c.pts.push_back({x, 3 + 0.01 * std::sin(9 * x), 0}); } v.push_back(c); }
  return v;
}

template <class PT> PT mkp(const std::array<double, 3>& a, bool isNormalDefault = false) {
  PT p = PT::Zero(); for (int i = 0; i < PointTraits<PT>::DIM; ++i) p[i] = (typename PT::Scalar)a[i];
  if (PointTraits<PT>::SIZE > PointTraits<PT>::DIM) p[PointTraits<PT>::SIZE - 1] = 1; return p;
}

template <class PT> void run_cloud(vf::Ctx& c, const char* tname, const Cloud& cl, size_t k, int rot, int normalInit) {
  using S = typename PT::Scalar; constexpr int DIM = PointTraits<PT>::DIM, SIZE = PointTraits<PT>::SIZE;
  using LV = Eigen::Matrix<LD, DIM, 1>; using LMt = Eigen::Matrix<LD, DIM, DIM>;
  LD eps = std::numeric_limits<S>::epsilon();
  // rotation about the origin
  Eigen::Matrix3d R3 = rot == 0 ? Eigen::Matrix3d::Identity() : rot == 1 ? Eigen::AngleAxisd(0.3, Eigen::Vector3d::UnitZ()).toRotationMatrix() : rot == 2 ? (Eigen::AngleAxisd(1.1, Eigen::Vector3d::UnitX()) * Eigen::AngleAxisd(-0.7, Eigen::Vector3d::UnitY())).toRotationMatrix() : Eigen::AngleAxisd(M_PI, Eigen::Vector3d::UnitZ()).toRotationMatrix();
  if (DIM == 2 && rot == 2) R3 = Eigen::AngleAxisd(-2.0, Eigen::Vector3d::UnitZ()).toRotationMatrix();
  if (cl.pts.size() <= k) { c.trivial(); return; }
  PointSet<PT> pts, rpts;
  for (auto& a : cl.pts) { Eigen::Vector3d q = R3 * Eigen::Vector3d(a[0], a[1], a[2]); pts.push_back(mkp<PT>(a)); rpts.push_back(mkp<PT>({q[0], q[1], q[2]})); }
  const PointSet<PT>& P = rot ? rpts : pts;
  size_t N = P.size();
  auto fresh_normals = [&]() { NormalSet<PT> n(N, normalInit == 0 ? PT(PT::Zero()) : (SIZE > DIM ? mkp<PT>({0, 0, 0}) : PT(PT::Constant((S)0.5)))); return n; };
  std::string params0 = vf::JO().str("type", tname).str("cloud", cl.name).u("points", N).u("k", k).i("rotation", rot).str("output_normals_init", normalInit == 0 ? "zero" : (SIZE > DIM ? "default-constructed (homogeneous coordinate 1)" : "constant 0.5")).done();
  // the six overloads
  NormalAndCurvatureEstimation<PT> est(k);
  KdTree<PT> tree(P);
  NormalSet<PT> n1 = fresh_normals(), n2 = fresh_normals(), n3 = fresh_normals(), n4 = fresh_normals(), n5 = fresh_normals(), n6 = fresh_normals();
  std::vector<S> c3(N), c4(N), c5(N), c6(N), r5(N), r6(N);
  est.compute(P, n1); est.compute(P, tree, n2); est.compute(P, n3, c3); est.compute(P, tree, n4, c4); est.compute(P, n5, c5, r5); est.compute(P, tree, n6, c6, r6);
  for (size_t i = 0; i < N; ++i) {
    bool same = true; for (int d = 0; d < DIM; ++d) if (n1[i][d] != n2[i][d] || n1[i][d] != n3[i][d] || n1[i][d] != n4[i][d] || n1[i][d] != n5[i][d] || n1[i][d] != n6[i][d]) same = false;
    auto eq = [](S a, S b) { return a == b || (a != a && b != b); };   // the reliability of a neighbourhood with a zero smallest eigenvalue is 0/0: not specified
    if (!eq(c3[i], c4[i]) || !eq(c3[i], c5[i]) || !eq(c3[i], c6[i]) || !eq(r5[i], r6[i])) same = false;
    if (!same) { c.violation("NormalAndCurvatureEstimation.overloadsDisagree", params0, vf::JO().u("point", i).vec("n1", std::vector<double>{(double)n1[i][0], (double)n1[i][1]}).vec("n2", std::vector<double>{(double)n2[i][0], (double)n2[i][1]}).vec("n3", std::vector<double>{(double)n3[i][0], (double)n3[i][1]}).vec("curv", std::vector<double>{(double)c3[i], (double)c4[i], (double)c5[i], (double)c6[i]}).vec("rel", std::vector<double>{(double)r5[i], (double)r6[i]}).done()); break; }
  }
  // history: a second tree shared with estimators of other neighbourhood sizes (smaller first, larger later), and the estimator itself
  // used on another cloud in between; the answers for this cloud must not change
  {
    KdTree<PT> tree2(P);
    NormalAndCurvatureEstimation<PT> small(std::min<size_t>(3, k)), large(std::min<size_t>(N - 1, k + 7));
    NormalSet<PT> t1 = fresh_normals(), t2 = fresh_normals(), n7 = fresh_normals(), n8 = fresh_normals(); std::vector<S> c7(N), c8(N);
    small.compute(P, tree2, t1);
    est.compute(P, tree2, n7, c7);
    large.compute(P, tree2, t2);
    PointSet<PT> part(P.begin(), P.begin() + std::max<size_t>(k + 1, N / 2)); NormalSet<PT> tp(part.size(), PT(PT::Zero())); est.compute(part, tp);
    { PointSet<PT> oth(P.rbegin(), P.rend()); for (size_t i = 0; i + 1 < oth.size(); ++i) for (int d = 0; d < DIM; ++d) oth[i][d] = (S)(oth[i][d] * (S)1.25 + (S)(0.3 - 0.1 * d)); NormalSet<PT> tr(oth.size(), PT(PT::Zero())); est.compute(oth, tr); }   // another (scaled, shifted) cloud whose LAST stored point is exactly this cloud's first one
    { size_t qi = 0; typename PT::Scalar qd = 0; tree2.findNearestNeighbor(P[N / 2], qi, qd); }   // a closest-point query on the shared tree in between
    est.compute(P, tree2, n8, c8);
    // a copy of the estimator, and the larger-k estimator overwritten by assignment
    NormalSet<PT> n9 = fresh_normals(), n10 = fresh_normals(); std::vector<S> c9(N), c10(N);
    { NormalAndCurvatureEstimation<PT> cp(est); cp.compute(P, tree2, n9, c9); large = est; large.compute(P, n10, c10); }
    // a scan buffer refilled in place: same PointSet object, same size, other coordinates (the other rotation of this cloud first)
    NormalSet<PT> n11 = fresh_normals(); std::vector<S> c11(N);
    { PointSet<PT> buf = rot ? pts : rpts; NormalAndCurvatureEstimation<PT> e2(k); NormalSet<PT> tmp = fresh_normals(); e2.compute(buf, tmp); for (size_t i = 0; i < N; ++i) buf[i] = P[i]; e2.compute(buf, n11, c11); }
    auto eq = [](S a, S b) { return a == b || (a != a && b != b); };
    for (size_t i = 0; i < N; ++i) {
      bool same = eq(c7[i], c3[i]) && eq(c8[i], c3[i]) && eq(c9[i], c3[i]) && eq(c10[i], c3[i]) && eq(c11[i], c3[i]); for (int d = 0; d < DIM; ++d) if (n11[i][d] != n1[i][d]) same = false; for (int d = 0; d < DIM; ++d) if (n7[i][d] != n1[i][d] || n8[i][d] != n1[i][d] || n9[i][d] != n1[i][d] || n10[i][d] != n1[i][d]) same = false;
      if (!same) { c.violation("NormalAndCurvatureEstimation.dependsOnHistory", params0, vf::JO().u("point", i).vec("fresh", std::vector<double>{(double)n1[i][0], (double)n1[i][1], (double)c3[i]}).vec("after_smaller_k_on_the_tree", std::vector<double>{(double)n7[i][0], (double)n7[i][1], (double)c7[i]}).vec("after_larger_k_and_other_cloud", std::vector<double>{(double)n8[i][0], (double)n8[i][1], (double)c8[i]}).vec("copy_constructed", std::vector<double>{(double)n9[i][0], (double)n9[i][1], (double)c9[i]}).vec("assigned", std::vector<double>{(double)n10[i][0], (double)n10[i][1], (double)c10[i]}).done()); break; }
    }
  }
  // un-rotated run for equivariance
  NormalSet<PT> base;
  if (rot) { NormalAndCurvatureEstimation<PT> e0(k); base = NormalSet<PT>(N, PT(PT::Zero())); e0.compute(pts, base); }
  std::vector<size_t> idx(k + 1); std::vector<S> dist(k + 1);
  size_t stride = N > 400 ? N / 200 : 1;
  for (size_t i = 0; i < N; i += stride) {
    c.eval();
    LV p, n; for (int d = 0; d < DIM; ++d) { p[d] = P[i][d]; n[d] = n1[i][d]; c.obs((double)n1[i][d]); }
    auto params = [&]() { return vf::JO().str("type", tname).str("cloud", cl.name).u("points", N).u("k", k).i("rotation", rot).str("output_normals_init", normalInit == 0 ? "zero" : "default").u("point", i).done(); };
    if (fabsl(n.norm() - 1) > 16 * eps) { c.violation("NormalAndCurvatureEstimation.normal.notUnit", params(), vf::JO().num("norm", n.norm()).done()); continue; }
    if (n.dot(p) > 16 * eps * p.norm()) { c.violation("NormalAndCurvatureEstimation.normal.pointsAwayFromSensor", params(), vf::JO().num("n_dot_p", n.dot(p)).num("p_norm", p.norm()).done()); continue; }
    // reference PCA (long double) on the library's own k-NN answer
    tree.findNearestNeighbors(P[i], k + 1, idx, dist);
    LD radq = 0; for (int d = 0; d < DIM; ++d) radq = std::max<LD>(radq, fabsl((LD)P[i][d]));
    bool tie = std::fabs(dist[k] - dist[k - 1]) <= 64 * (LD)eps * dist[k] + 8 * (LD)eps * radq * sqrtl((LD)dist[k]);   // squared distances of far points carry the rounding of the coordinates: |p| eps sqrt(d2)
    LV mean = LV::Zero(); LD rad = 0;
    for (size_t j = 0; j < k; ++j) for (int d = 0; d < DIM; ++d) { mean[d] += P[idx[j]][d]; rad = std::max<LD>(rad, fabsl(P[idx[j]][d])); }
    mean /= (LD)k;
    LMt cov = LMt::Zero(); for (size_t j = 0; j < k; ++j) { LV q; for (int d = 0; d < DIM; ++d) q[d] = P[idx[j]][d]; cov += (q - mean) * (q - mean).transpose(); }
    cov /= (LD)k;
    Eigen::SelfAdjointEigenSolver<LMt> es(cov);
    LD l0 = es.eigenvalues()(0), l1 = es.eigenvalues()(1), lmax = es.eigenvalues()(DIM - 1);
    if (!(lmax > 0)) { c.trivial(); continue; }   // all k neighbours coincide (a point stored k times): no plane, no curvature - outside the statement
    LD gap = (l1 - l0) / lmax, spread = sqrtl(lmax);
    LD bound = 6 * eps * (1 + rad / spread) / std::max<LD>(gap, 1e-30L);   // two-pass covariance: centring error eps R relative to the spread s
    LD curv = DIM > 0 ? (LD)c3[i] : 0;
    LD ctol = 64 * eps * (1 + rad / spread);
    if (!(curv >= -ctol && curv <= (LD)1 / DIM + ctol)) c.violation("NormalAndCurvatureEstimation.curvature.range", params(), vf::JO().num("curvature", curv).done());
    if (gap <= 1e-6L || bound > 0.25L || tie) { c.trivial(); continue; }   // a bound above 0.25 rad says nothing about the direction in this scalar type
    c.nontrivial();
    LV ref = es.eigenvectors().col(0);
    LD sinang = (n - ref * ref.dot(n)).norm();   // component of n orthogonal to the reference direction
    c.note_max(std::string("normal_angle_over_bound_") + tname, (double)(sinang / bound));
    if (!(sinang <= bound)) { c.violation("NormalAndCurvatureEstimation.normal.notLeastVarianceDirection", params(), vf::JO().num("sin_angle", sinang).num("bound", bound).num("eigen_gap_rel", gap).done()); continue; }
    LD cref = l0 / (l0 + l1 + (DIM == 3 ? es.eigenvalues()(2) : 0));
    if (fabsl(curv - cref) > ctol + 1e-3L * fabsl(cref) * (std::is_same<S, float>::value ? 10 : 1e-6L)) c.violation("NormalAndCurvatureEstimation.curvature.value", params(), vf::JO().num("curvature", curv).num("reference", cref).done());
    if (cl.planar) {
      Eigen::Vector3d tn = R3 * Eigen::Vector3d(cl.normal[0], cl.normal[1], cl.normal[2]); LV t; for (int d = 0; d < DIM; ++d) t[d] = tn[d];
      t.normalize(); LD s2 = (n - t * t.dot(n)).norm();
      if (!(s2 <= bound) || fabsl(curv) > ctol) c.violation("NormalAndCurvatureEstimation.planar.exactNormalZeroCurvature", params(), vf::JO().num("sin_angle_to_surface_normal", s2).num("curvature", curv).num("bound", bound).done());
    }
    if (rot) {
      Eigen::Vector3d b3 = Eigen::Vector3d::Zero(); for (int d = 0; d < DIM; ++d) b3[d] = base[i][d];
      Eigen::Vector3d rb = R3 * b3; LV rbl; for (int d = 0; d < DIM; ++d) rbl[d] = rb[d];
      LD dEq = (rbl - n).norm();
      if (fabsl(n.dot(p)) <= 2 * bound * p.norm()) dEq = std::min(dEq, (rbl + n).norm());   // grazing incidence within the direction error: the sign of the oriented normal is not determined
      if (dEq > 2 * bound + 16 * eps) c.violation("NormalAndCurvatureEstimation.rotationEquivariance", params(), vf::JO().num("difference", dEq).num("bound", 2 * bound).done());
    }
    if (c.want_sample()) c.sample(params());
  }
}

const char* kTypes[] = {"Vector2d", "Vector2f", "Homogeneous2d", "Homogeneous2f", "Vector3d", "Vector3f", "Homogeneous3d", "Homogeneous3f"};
const size_t kK[] = {3, 5, 10, 20, 30};
std::vector<size_t> ks(bool th) { if (!th) return std::vector<size_t>(kK, kK + 5); std::vector<size_t> v; for (size_t k = 3; k <= 30; ++k) v.push_back(k); return v; }
std::vector<Cloud> g2, g3;

}  // namespace

// case = type(8) x cloud x k(5) ; rotations and output initialisation inside
uint64_t vf_ncases(const std::string& tier) { if (g2.empty()) { g2 = clouds2(false); g3 = clouds3(false); } size_t nk = ks(tier == "thorough").size(); return 4 * g2.size() * nk + 4 * g3.size() * nk; }

void vf_run(uint64_t idx, const std::string& tier, vf::Ctx& c) {
  if (g2.empty()) { g2 = clouds2(false); g3 = clouds3(false); }
  auto K = ks(tier == "thorough"); size_t nk = K.size();
  uint64_t n2 = 4 * g2.size() * nk;
  bool is3 = idx >= n2; uint64_t r = is3 ? idx - n2 : idx;
  const auto& cl = is3 ? g3 : g2;
  int t = r / (cl.size() * nk); size_t ci = (r / nk) % cl.size(); size_t k = K[r % nk];
  // small cloud variant: exactly k+1 points (first k+1 points of a planar patch) for the first cloud
  for (int rot = 0; rot < 4; ++rot) for (int init = 0; init < 2; ++init) {
    if (tier != "thorough" && rot && init) continue;
    Cloud use = cl[ci];
    if (!is3) { switch (t) { case 0: run_cloud<Eigen::Vector2d>(c, kTypes[0], use, k, rot, init); break; case 1: run_cloud<Eigen::Vector2f>(c, kTypes[1], use, k, rot, init); break; case 2: run_cloud<HomogeneousCoordinates2d>(c, kTypes[2], use, k, rot, init); break; default: run_cloud<HomogeneousCoordinates2f>(c, kTypes[3], use, k, rot, init); } }
    else { switch (t) { case 0: run_cloud<Eigen::Vector3d>(c, kTypes[4], use, k, rot, init); break; case 1: run_cloud<Eigen::Vector3f>(c, kTypes[5], use, k, rot, init); break; case 2: run_cloud<HomogeneousCoordinates3d>(c, kTypes[6], use, k, rot, init); break; default: run_cloud<HomogeneousCoordinates3f>(c, kTypes[7], use, k, rot, init); } }
    if (rot == 0) {   // the smallest admissible cloud: the first k+1 points of this cloud (planar and curved ones alike)
      Cloud small = cl[ci]; small.name += " (first k+1 points)"; { std::vector<std::array<double, 3>> sub; size_t st = std::max<size_t>(1, small.pts.size() / (k + 1)); for (size_t q = 0; q < small.pts.size() && sub.size() < k + 1; q += st) sub.push_back(small.pts[q]); small.pts = sub; }
      if (!is3) { if (t == 0) run_cloud<Eigen::Vector2d>(c, kTypes[0], small, k, 0, init); else if (t == 2) run_cloud<HomogeneousCoordinates2d>(c, kTypes[2], small, k, 0, init); }
      else { if (t == 0) run_cloud<Eigen::Vector3d>(c, kTypes[4], small, k, 0, init); else if (t == 2) run_cloud<HomogeneousCoordinates3d>(c, kTypes[6], small, k, 0, init); }
    }
  }
}

std::string vf_describe(const std::string& tier) {
  if (g2.empty()) { g2 = clouds2(false); g3 = clouds3(false); }
  vf::JO o; std::vector<std::string> n2, n3; for (auto& c : g2) n2.push_back(c.name); for (auto& c : g3) n3.push_back(c.name);
  o.strs("clouds_2d", n2).strs("clouds_3d", n3).vec("k", ks(tier == "thorough"));
  o.str("rotations", "identity, Rz(0.3), Rx(1.1)Ry(-0.7) (2D: R(-2.0)), Rz(pi)");
  o.str("output_normals", "zero-initialised and default-constructed (homogeneous coordinate 1; Cartesian: constant 0.5)");
  o.str("overloads", "all six compute overloads, compared bitwise");
  o.str("history", "a second kd-tree shared with an estimator of smaller k (first) and larger k (later), the estimator under test also run on a sub-cloud and on another cloud whose last stored point is exactly this cloud's first in between, a closest-point query on the shared tree in between, a copy-constructed estimator and an estimator overwritten by assignment, and an estimator run on a point-set buffer that is then refilled in place: answers bit-equal to the first run");
  o.str("oracle", "unit Cartesian length; n.p<=0; direction vs long-double PCA of the library's own k-NN answer with bound 6 eps (1+R/s)/gap (cases with gap<=1e-6, bound>0.05 or a k/(k+1) distance tie are skipped); planar clouds: surface normal and zero curvature; curvature in [0,1/DIM]; R n(p) = n'(R p)");
  return o.done();
}

VF_MAIN()
