// C20 -- bounding volumes and point-set extents enclose exactly what they should.
#include <romea_core_common/containers/boundingbox/AxisAlignedBoundingBox.hpp>
#include <romea_core_common/containers/boundingbox/OrientedBoundingBox.hpp>
#include <romea_core_common/math/Interval.hpp>
#include <romea_core_common/containers/Eigen/EigenContainers.hpp>
#include <romea_core_common/pointset/algorithms/PointSetPreconditioner.hpp>
#include "vrun.hpp"
#include <Eigen/Geometry>

const char* kProperty = "C20";
using namespace romea::core;

namespace {

bool g_th = false;   // thorough tier: more rotations

template <class S> S ulp(S x) { x = std::fabs(x); return std::nextafter(x, std::numeric_limits<S>::infinity()) - x; }
template <class V> std::string vj(const V& v) { std::vector<long double> w(v.size()); for (int i = 0; i < v.size(); ++i) w[i] = v[i]; return vf::jarr(w); }

const double kC[] = {0, 1.5, -1.5, 1000, -1000};
const double kH[] = {0, 0.25, 2};

template <class S, size_t DIM> std::vector<Eigen::Matrix<S, DIM, DIM>> rotations() {
  std::vector<Eigen::Matrix<S, DIM, DIM>> v;
  if constexpr (DIM == 2) {
    for (int k = 0; k < (g_th ? 64 : 16); ++k) { double a = k * M_PI / (g_th ? 32 : 8) + (k % 3 == 1 ? 0.1 : 0); Eigen::Matrix<S, 2, 2> R; R << (S)std::cos(a), (S)-std::sin(a), (S)std::sin(a), (S)std::cos(a); v.push_back(R); }
  } else {
    using V3 = Eigen::Matrix<S, 3, 1>;
    std::vector<V3> axes = {V3(1, 0, 0), V3(0, 1, 0), V3(0, 0, 1), V3(1, 1, 0), V3(1, -1, 1), V3(-2, 1, 3)};
    for (auto& ax : axes) for (double a : {0.0, 0.3, M_PI / 2, 2.0, M_PI, -1.1}) v.push_back(Eigen::AngleAxis<S>((S)a, ax.normalized()).toRotationMatrix());
    if (g_th) { for (V3 ax : {V3(0.1f, -1, 0.2f), V3(3, 2, -1), V3(1, 0, 1), V3(0, 1, -1)}) for (double a : {1e-3, 0.7, 1.3, 2.6, -3.0}) v.push_back(Eigen::AngleAxis<S>((S)a, ax.normalized()).toRotationMatrix());
      v.push_back((Eigen::AngleAxis<S>((S)0.9, V3::UnitX()) * Eigen::AngleAxis<S>((S)0.6, V3::UnitZ())).toRotationMatrix()); v.push_back((Eigen::AngleAxis<S>((S)-0.4, V3::UnitY()) * Eigen::AngleAxis<S>((S)2.2, V3::UnitX()) * Eigen::AngleAxis<S>((S)1.0, V3::UnitZ())).toRotationMatrix()); }
  }
  return v;
}

// box-frame query lattice per axis
template <class S> std::vector<S> qvals(S h) {
  std::vector<S> v = {0, h / 2, -h / 2, h, -h, (S)(h * (1 + 1.0 / 1048576)), (S)(-h * (1 + 1.0 / 1048576)), (S)(h * (1 - 1.0 / 1048576)), (S)(-h * (1 - 1.0 / 1048576)), 2 * h, -2 * h, (S)(h + 0.5), (S)(-h - 0.5)};
  std::sort(v.begin(), v.end()); v.erase(std::unique(v.begin(), v.end()), v.end()); return v;
}

template <class S, size_t DIM> void boxes(vf::Ctx& c, const char* tname, size_t ic0) {
  using P = Eigen::Matrix<S, DIM, 1>; using R = Eigen::Matrix<S, DIM, DIM>;
  using LP = Eigen::Matrix<long double, DIM, 1>; using LR = Eigen::Matrix<long double, DIM, DIM>;
  auto rots = rotations<S, DIM>();
  vf::Radix rc; for (size_t d = 1; d < DIM; ++d) rc.dims.push_back(5);
  vf::Radix rh; for (size_t d = 0; d < DIM; ++d) rh.dims.push_back(3);
  for (uint64_t icr = 0; icr < rc.total(); ++icr) for (uint64_t ih = 0; ih < rh.total(); ++ih) {
    auto tc = rc.decode(icr); auto th = rh.decode(ih);
    P ce, h; ce[0] = (S)kC[ic0]; for (size_t d = 1; d < DIM; ++d) ce[d] = (S)kC[tc[d - 1]]; for (size_t d = 0; d < DIM; ++d) h[d] = (S)kH[th[d]];
    S scale = std::max<S>(ce.cwiseAbs().maxCoeff(), 1) + h.maxCoeff() * 4;
    long double tolFace = 8 * (long double)ulp<S>(scale);
    AxisAlignedBoundingBox<S, DIM> aabb(ce, h);
    // interval round trip
    {
      Interval<S, DIM> iv(ce - h, ce + h);
      AxisAlignedBoundingBox<S, DIM> fromIv(iv);
      Interval<S, DIM> back = fromIv.toInterval();
      c.eval();
      if ((back.lower() - iv.lower()).template cast<long double>().norm() > 4 * (long double)ulp<S>(scale) || (back.upper() - iv.upper()).template cast<long double>().norm() > 4 * (long double)ulp<S>(scale) ||
          (fromIv.getCenterPosition() - ce).template cast<long double>().norm() > 4 * (long double)ulp<S>(scale) || (fromIv.getHalfWidthExtents() - h).template cast<long double>().norm() > 4 * (long double)ulp<S>(scale))
        c.violation("AxisAlignedBoundingBox.fromInterval.toInterval", vf::JO().str("type", tname).raw("centre", vj(ce)).raw("half", vj(h)).done(), vf::JO().raw("lower", vj(back.lower())).raw("upper", vj(back.upper())).done());
      Interval<S, DIM> ti = aabb.toInterval();
      if (ti.lower() != (ce - h).eval() || ti.upper() != (ce + h).eval()) c.violation("AxisAlignedBoundingBox.toInterval", vf::JO().str("type", tname).raw("centre", vj(ce)).raw("half", vj(h)).done(), "{}");
    }
    std::vector<std::vector<S>> q(DIM); vf::Radix rq; for (size_t d = 0; d < DIM; ++d) { q[d] = qvals<S>(h[d]); rq.dims.push_back(q[d].size()); }
    OrientedBoundingBox<S, DIM> keepObb(P::Constant((S)3), P::Constant((S)0.5), rots[rots.size() / 2]);   // long-lived box overwritten by assignment on every other rotation
    for (size_t ir = 0; ir < rots.size(); ++ir) {
      const R& Rm = rots[ir];
      OrientedBoundingBox<S, DIM> obbConstructed(ce, h, Rm);
      if (ir % 2) keepObb = obbConstructed;
      OrientedBoundingBox<S, DIM> obbCopy(obbConstructed);
      const OrientedBoundingBox<S, DIM>& obb = ir % 2 ? keepObb : (ir % 4 == 2 ? obbCopy : obbConstructed);   // constructed / copy-constructed / assigned forms in turn
      LR Rl = Rm.template cast<long double>(); LP cl = ce.template cast<long double>();
      bool identity = ir == 0;
      for (uint64_t iq = 0; iq < rq.total(); ++iq) {
        auto tq = rq.decode(iq); P qq; for (size_t d = 0; d < DIM; ++d) qq[d] = q[d][tq[d]];
        P p = ce + Rm * qq;
        LP loc = Rl.transpose() * (p.template cast<long double>() - cl);   // the query point expressed in the box frame, in long double
        bool in = true, near = false;
        for (size_t d = 0; d < DIM; ++d) { long double m = fabsl(loc[d]) - (long double)h[d]; if (m > 0) in = false; if (fabsl(m) <= tolFace) near = true; }
        c.eval(); if (near) c.nontrivial();
        bool got = obb.isInside(p);
        c.obs((uint64_t)got);
        if (!near && got != in) c.violation("OrientedBoundingBox.isInside", vf::JO().str("type", tname).i("dim", DIM).raw("centre", vj(ce)).raw("half", vj(h)).u("rotation", ir).raw("point", vj(p)).done(), vf::JO().b("got", got).b("want", in).raw("point_in_box_frame", vj(loc)).done());
        if (identity) {
          bool ain = true, anear = false;
          for (size_t d = 0; d < DIM; ++d) { long double m = fabsl((long double)p[d] - cl[d]) - (long double)h[d]; if (m > 0) ain = false; if (fabsl(m) <= tolFace) anear = true; }
          bool ag = aabb.isInside(p);
          // exact statement for the axis-aligned box: operands of the comparison are exactly representable, so no tolerance when the subtraction is exact
          if (!anear && ag != ain) c.violation("AxisAlignedBoundingBox.isInside", vf::JO().str("type", tname).i("dim", DIM).raw("centre", vj(ce)).raw("half", vj(h)).raw("point", vj(p)).done(), vf::JO().b("got", ag).b("want", ain).done());
          if (anear && ce.cwiseAbs().maxCoeff() == 0) {   // centre 0: p - c is exact, the verdict on the face itself is decidable: faces belong to the box
            bool exact = true; for (size_t d = 0; d < DIM; ++d) if (std::fabs(p[d]) > h[d]) exact = false;
            c.nontrivial();
            if (ag != exact) c.violation("AxisAlignedBoundingBox.isInside.onFace", vf::JO().str("type", tname).i("dim", DIM).raw("half", vj(h)).raw("point", vj(p)).done(), vf::JO().b("got", ag).b("want", exact).done());
            if (obb.isInside(p) != exact) c.violation("OrientedBoundingBox.isInside.onFace", vf::JO().str("type", tname).i("dim", DIM).raw("half", vj(h)).raw("point", vj(p)).done(), vf::JO().b("want", exact).done());
          }
        }
      }
      // enclosing axis-aligned box: contains every corner, each face touched by a corner
      auto enc = obb.toAxisAlignedBoundingBox();
      LP eh = enc.getHalfWidthExtents().template cast<long double>();
      LP maxs = LP::Constant(-1e30L);
      bool contains = (enc.getCenterPosition() == ce);
      for (int corner = 0; corner < (1 << DIM); ++corner) {
        LP s; for (size_t d = 0; d < DIM; ++d) s[d] = (corner >> d & 1) ? (long double)h[d] : -(long double)h[d];
        LP w = Rl * s;
        for (size_t d = 0; d < DIM; ++d) { maxs[d] = std::max(maxs[d], fabsl(w[d])); if (fabsl(w[d]) > eh[d] + tolFace) contains = false; }
      }
      bool tight = true; for (size_t d = 0; d < DIM; ++d) if (fabsl(maxs[d] - eh[d]) > tolFace) tight = false;
      c.eval(); c.nontrivial();
      if (!contains || !tight) c.violation("OrientedBoundingBox.toAxisAlignedBoundingBox", vf::JO().str("type", tname).i("dim", DIM).raw("centre", vj(ce)).raw("half", vj(h)).u("rotation", ir).done(),
                                           vf::JO().raw("enclosing_half", vj(eh)).raw("corner_extent", vj(maxs)).b("contains", contains).b("tight", tight).done());
      if (c.want_sample()) c.sample(vf::JO().str("type", tname).i("dim", DIM).raw("centre", vj(ce)).raw("half", vj(h)).u("rotation", ir).done());
    }
  }
}


// strongly elongated and zero-thickness boxes under every rotation of the catalogue: the enclosing box per axis against sum |R(d,n)| h(n) in long
// double, with a tolerance relative to THAT sum (a term lost on a thin axis is invisible at the scale of the whole box)
template <class S, size_t DIM> void elongated(vf::Ctx& c, const char* tname) {
  using P = Eigen::Matrix<S, DIM, 1>;
  auto rots = rotations<S, DIM>();
  const double shapes[5][3] = {{2000, 0.05, 0.05}, {2000, 0, 0}, {0.05, 2000, 0.05}, {0, 0.125, 4000}, {1e-3, 1e3, 1e-3}};
  for (auto& sh : shapes) for (size_t ir = 0; ir < rots.size(); ++ir) {
    P ce = P::Constant((S)1.5), h; for (size_t d = 0; d < DIM; ++d) h[d] = (S)sh[d];
    OrientedBoundingBox<S, DIM> obb(ce, h, rots[ir]);
    auto enc = obb.toAxisAlignedBoundingBox();
    c.eval(); c.nontrivial();
    for (size_t d = 0; d < DIM; ++d) {
      long double sum = 0; for (size_t n = 0; n < DIM; ++n) sum += fabsl((long double)rots[ir](d, n)) * (long double)h[n];
      long double got = enc.getHalfWidthExtents()[d], tol = 8 * (long double)std::numeric_limits<S>::epsilon() * sum + (long double)std::numeric_limits<S>::denorm_min();
      c.obs((double)got);
      if (!(fabsl(got - sum) <= tol)) { c.violation("OrientedBoundingBox.toAxisAlignedBoundingBox", vf::JO().str("type", tname).i("dim", DIM).raw("half", vj(h)).u("rotation", ir).str("explorer", "elongated boxes").done(), vf::JO().i("axis", d).num("enclosing_half_extent", got).num("sum_abs_R_h", sum).num("tol", tol).done()); return; }
    }
  }
}

template <class S, size_t DIM> void intervals(vf::Ctx& c, const char* tname) {
  using P = Eigen::Matrix<S, DIM, 1>;
  elongated<S, DIM>(c, tname);
  const S L[] = {-1000, -1.5, 0, 0.25, 1000};
  // all pairs of 1-D intervals per axis; axes rotate through the list
  std::vector<std::pair<S, S>> iv; for (int a = 0; a < 5; ++a) for (int b = a; b < 5; ++b) iv.push_back({L[a], L[b]});
  for (size_t i = 0; i < iv.size(); ++i) for (size_t j = 0; j < iv.size(); ++j) {
    P lo1, hi1, lo2, hi2;
    for (size_t d = 0; d < DIM; ++d) { auto& A = iv[(i + 3 * d) % iv.size()]; auto& B = iv[(j + 5 * d) % iv.size()]; lo1[d] = A.first; hi1[d] = A.second; lo2[d] = B.first; hi2[d] = B.second; }
    Interval<S, DIM> a(lo1, hi1), b(lo2, hi2);
    Interval<S, DIM> u = a; u.include(b);
    { Interval<S, DIM> v(lo2, hi2); v = a; v.include(b); if ((i + j) % 2) u = v; }   // every other pair goes through an interval overwritten by assignment
    {   // the default-constructed interval is the whole space: including anything leaves it unbounded
      Interval<S, DIM> all; all.include(b); c.eval();
      bool whole = true; for (size_t d = 0; d < DIM; ++d) if (all.lower()[d] != -std::numeric_limits<S>::max() || all.upper()[d] != std::numeric_limits<S>::max()) whole = false;
      if (!whole) c.violation("Interval.include", vf::JO().str("type", tname).i("dim", DIM).str("receiver", "default-constructed (whole space)").raw("lo2", vj(lo2)).raw("hi2", vj(hi2)).done(), vf::JO().raw("lower", vj(all.lower())).raw("upper", vj(all.upper())).done());
    }
    {   // a box built from the hull (an interval that has been grown by include()) reproduces the hull
      AxisAlignedBoundingBox<S, DIM> hb(u); Interval<S, DIM> back = hb.toInterval();
      long double scale = 0; for (size_t d = 0; d < DIM; ++d) scale = std::max<long double>(scale, std::max(fabsl((long double)u.lower()[d]), fabsl((long double)u.upper()[d])));
      if ((back.lower() - u.lower()).template cast<long double>().norm() > 4 * (long double)ulp<S>((S)scale) || (back.upper() - u.upper()).template cast<long double>().norm() > 4 * (long double)ulp<S>((S)scale))
        c.violation("AxisAlignedBoundingBox.fromInterval.afterInclude", vf::JO().str("type", tname).i("dim", DIM).raw("lo1", vj(lo1)).raw("hi1", vj(hi1)).raw("lo2", vj(lo2)).raw("hi2", vj(hi2)).done(), vf::JO().raw("box_lower", vj(back.lower())).raw("box_upper", vj(back.upper())).raw("hull_lower", vj(u.lower())).raw("hull_upper", vj(u.upper())).done());
    }
    c.eval(); c.nontrivial();
    bool ok = true; for (size_t d = 0; d < DIM; ++d) if (u.lower()[d] != std::min(lo1[d], lo2[d]) || u.upper()[d] != std::max(hi1[d], hi2[d])) ok = false;
    if (!ok) c.violation("Interval.include", vf::JO().str("type", tname).i("dim", DIM).raw("lo1", vj(lo1)).raw("hi1", vj(hi1)).raw("lo2", vj(lo2)).raw("hi2", vj(hi2)).done(), vf::JO().raw("lower", vj(u.lower())).raw("upper", vj(u.upper())).done());
    for (S x : L) for (S dx : {(S)0, std::numeric_limits<S>::epsilon() * 1000}) { P p = P::Constant(x + dx); bool want = true; for (size_t d = 0; d < DIM; ++d) if (p[d] < lo1[d] || p[d] > hi1[d]) want = false; if (a.inside(p) != want) c.violation("Interval.inside", vf::JO().str("type", tname).raw("lo", vj(lo1)).raw("hi", vj(hi1)).raw("point", vj(p)).done(), "{}"); }
    // 1-D specialisation
    Interval<S, 1> a1(lo1[0], hi1[0]), b1(lo2[0], hi2[0]); a1.include(b1);
    if (a1.lower() != std::min(lo1[0], lo2[0]) || a1.upper() != std::max(hi1[0], hi2[0])) c.violation("Interval1D.include", vf::JO().str("type", tname).num("lo1", lo1[0]).num("hi1", hi1[0]).num("lo2", lo2[0]).num("hi2", hi2[0]).done(), "{}");
  }
}


// the unique extreme of a larger set at EVERY index in turn (block / chunk boundaries of a vectorised sweep)
template <class PT> void extreme_positions(vf::Ctx& c, const char* tname) {
  using S = typename PT::Scalar; constexpr int DIM = PointTraits<PT>::DIM, SIZE = PointTraits<PT>::SIZE;
  for (int n : {9, 33, 130, 513, 600, 1030}) {
    PointSet<PT> base;
    for (int i = 0; i < n; ++i) { PT p = PT::Zero(); if (SIZE > DIM) p[SIZE - 1] = 1; for (int d = 0; d < DIM; ++d) p[d] = (S)(-1.0 + 2.0 * ((i * (7 + 4 * d) + 3 * d) % 97) / 96.0 - 40.0); base.push_back(p); }   // all-negative octant
    for (int i = 0; i < n; ++i) {
      PointSet<PT> pts = base; pts[i][0] = (S)-47; pts[i][1] = (S)-30;   // unique minimum on axis 0 and unique maximum on axis 1 at index i
      PointSetPreconditioner<PT> pre(pts);
      c.eval(); c.nontrivial();
      Eigen::Matrix<S, SIZE, 1> mn = pts[0], mx = pts[0]; for (auto& q : pts) for (int d = 0; d < SIZE; ++d) { mn[d] = std::min(mn[d], q[d]); mx[d] = std::max(mx[d], q[d]); }
      S side = 0; for (int d = 0; d < DIM; ++d) side = std::max(side, (S)(mx[d] - mn[d]));
      S wantScale = (S)1 / side;
      bool ok = std::fabs(pre.getScale() - wantScale) <= 4 * std::numeric_limits<S>::epsilon() * wantScale;
      for (int d = 0; d < SIZE; ++d) if (pre.getPointSetMin()[d] != mn[d] || pre.getPointSetMax()[d] != mx[d]) ok = false;
      c.obs((double)pre.getPointSetMin()[0]); c.obs((double)pre.getPointSetMax()[1]);
      if (!ok) { c.violation("PointSetPreconditioner.extents", vf::JO().str("type", tname).str("explorer", "extreme at every index").i("points", n).i("index_of_the_extreme", i).done(), vf::JO().raw("min", vj(pre.getPointSetMin())).raw("max", vj(pre.getPointSetMax())).num("scale", pre.getScale()).num("want_scale", wantScale).done()); break; }
    }
  }
}

// ---- point-set extents --------------------------------------------------------------------------------------------
template <class PT> void extents(vf::Ctx& c, const char* tname) {
  using S = typename PT::Scalar;
  constexpr int DIM = PointTraits<PT>::DIM, SIZE = PointTraits<PT>::SIZE;
  for (int n : {1, 2, 3, 7, 50, 1000}) for (int oct = 0; oct < (1 << DIM); ++oct) for (double off : {0.5, 40.0, 2500.0}) for (int shape = 0; shape < 3; ++shape) {
    PointSet<PT> pts;
    for (int i = 0; i < n; ++i) {
      PT p = PT::Zero(); if (SIZE > DIM) p[SIZE - 1] = 1;
      for (int d = 0; d < DIM; ++d) {
        double v = shape == 0 ? 0.37 * ((i * (d + 3)) % 11) : shape == 1 ? 0.001 * ((i * 7 + d) % 13) : (d == 0 ? 0.25 * i : 0.0);   // lattice / tight cluster / collinear
        double sign = (oct >> d & 1) ? -1 : 1;
        p[d] = (S)(sign * (off + v));
      }
      pts.push_back(p);
    }
    PointSetPreconditioner<PT> pre(pts);
    Eigen::Matrix<long double, SIZE, 1> mn, mx, me = Eigen::Matrix<long double, SIZE, 1>::Zero();
    mn.setConstant(1e300L); mx.setConstant(-1e300L);
    for (auto& p : pts) for (int d = 0; d < SIZE; ++d) { mn[d] = std::min<long double>(mn[d], p[d]); mx[d] = std::max<long double>(mx[d], p[d]); me[d] += p[d]; }
    me /= n;
    long double side = (mx - mn).maxCoeff();
    c.eval(); if (oct == (1 << DIM) - 1 || oct) c.nontrivial();
    std::string params = vf::JO().str("type", tname).i("points", n).i("octant_sign_bits", oct).num("offset", off).i("shape", shape).done();
    bool ok = true;
    for (int d = 0; d < SIZE; ++d) {
      c.obs((double)pre.getPointSetMin()[d]); c.obs((double)pre.getPointSetMax()[d]);
      if ((long double)pre.getPointSetMin()[d] != mn[d] || (long double)pre.getPointSetMax()[d] != mx[d]) ok = false;
      if (fabsl((long double)pre.getPointSetMean()[d] - me[d]) > (long double)std::numeric_limits<S>::epsilon() * (n + 4) * (fabsl(me[d]) + 1 + off)) ok = false;
    }
    S wantScale = (S)1 / (S)side;
    if (side > 0 ? fabsl((long double)pre.getScale() - (long double)wantScale) > 4 * (long double)std::numeric_limits<S>::epsilon() * (long double)wantScale : !(std::isinf(pre.getScale()) && pre.getScale() > 0)) ok = false;
    if (!ok) c.violation("PointSetPreconditioner.extents", params, vf::JO().raw("min", vj(pre.getPointSetMin())).raw("want_min", vj(mn)).raw("max", vj(pre.getPointSetMax())).raw("want_max", vj(mx)).raw("mean", vj(pre.getPointSetMean())).raw("want_mean", vj(me)).num("scale", pre.getScale()).num("want_scale", wantScale).done());
    {   // a copy and an assigned-to preconditioner (which had computed another set) report the same extents
      PointSetPreconditioner<PT> cp(pre); PointSet<PT> far; far.push_back(PT(PT::Constant((S)-777))); PointSetPreconditioner<PT> as(far); as = pre;
      bool same = cp.getScale() == pre.getScale() && as.getScale() == pre.getScale() && cp.getTranslation() == pre.getTranslation() && as.getTranslation() == pre.getTranslation();
      for (int d = 0; d < SIZE; ++d) if (cp.getPointSetMin()[d] != pre.getPointSetMin()[d] || as.getPointSetMin()[d] != pre.getPointSetMin()[d] || cp.getPointSetMax()[d] != pre.getPointSetMax()[d] || as.getPointSetMax()[d] != pre.getPointSetMax()[d] || cp.getPointSetMean()[d] != pre.getPointSetMean()[d] || as.getPointSetMean()[d] != pre.getPointSetMean()[d]) same = false;
      if (!same && side > 0) c.violation("PointSetPreconditioner.copyOrAssignedDiffers", params, "{}");
    }
    if (pts.size() >= 3) {   // the same, with the first and the last point of the buffer unchanged by the refill (only interior points differ)
      PointSet<PT> buf = pts; for (size_t i = 1; i + 1 < buf.size(); ++i) for (int d = 0; d < DIM; ++d) buf[i][d] = (S)(buf[i][d] * (S)0.5 - (S)3);
      PointSetPreconditioner<PT> pb(buf); for (size_t i = 1; i + 1 < pts.size(); ++i) buf[i] = pts[i]; pb.compute(buf);
      bool same = pb.getScale() == pre.getScale() || (pb.getScale() != pb.getScale() && pre.getScale() != pre.getScale());
      for (int d = 0; d < SIZE; ++d) if (pb.getPointSetMin()[d] != pre.getPointSetMin()[d] || pb.getPointSetMax()[d] != pre.getPointSetMax()[d] || pb.getPointSetMean()[d] != pre.getPointSetMean()[d]) same = false;
      if (!same) c.violation("PointSetPreconditioner.recompute", params, vf::JO().str("history", "compute(buffer); interior points of the buffer refilled in place; compute(buffer)").done());
    }
    {   // a buffer refilled in place (same PointSet object, same size, other coordinates) and computed again by the same preconditioner
      PointSet<PT> buf(pts.size(), PT(PT::Constant((S)9))); PointSetPreconditioner<PT> pb(buf); for (size_t i = 0; i < pts.size(); ++i) buf[i] = pts[i]; pb.compute(buf);
      bool same = pb.getScale() == pre.getScale() || (pb.getScale() != pb.getScale() && pre.getScale() != pre.getScale());
      for (int d = 0; d < SIZE; ++d) if (pb.getPointSetMin()[d] != pre.getPointSetMin()[d] || pb.getPointSetMax()[d] != pre.getPointSetMax()[d] || pb.getPointSetMean()[d] != pre.getPointSetMean()[d]) same = false;
      if (!same) c.violation("PointSetPreconditioner.recompute", params, vf::JO().str("history", "compute(buffer); buffer refilled in place; compute(buffer)").done());
    }
    // recompute on the same object with another set: no leftovers
    PointSet<PT> one; one.push_back(pts[0]);
    pre.compute(one);
    for (int d = 0; d < SIZE; ++d) if (pre.getPointSetMin()[d] != pts[0][d] || pre.getPointSetMax()[d] != pts[0][d] || pre.getPointSetMean()[d] != pts[0][d]) { c.violation("PointSetPreconditioner.recompute", params, "{}"); break; }
    if (c.want_sample()) c.sample(params);
  }
}

template <class S, int DIM> void containers(vf::Ctx& c, const char* tname) {
  using A = Eigen::Array<S, DIM, 1>; using V = Eigen::Matrix<S, DIM, 1>;
  for (int n : {1, 2, 5, 100}) for (int oct = 0; oct < (1 << DIM); ++oct) {
    VectorOfEigenVector<A> arr; VectorOfEigenVector<V> vec;
    Eigen::Matrix<long double, DIM, 1> mn, mx, me = Eigen::Matrix<long double, DIM, 1>::Zero(); mn.setConstant(1e300L); mx.setConstant(-1e300L);
    for (int i = 0; i < n; ++i) { A a; for (int d = 0; d < DIM; ++d) { a[d] = (S)(((oct >> d & 1) ? -1 : 1) * (3.0 + 0.25 * ((i * (d + 2)) % 9))); mn[d] = std::min<long double>(mn[d], a[d]); mx[d] = std::max<long double>(mx[d], a[d]); me[d] += a[d]; } arr.push_back(a); vec.push_back(a.matrix()); }
    me /= n;
    A gmin = romea::core::min(arr), gmax = romea::core::max(arr), gmean = romea::core::mean(arr); V vmean = romea::core::mean(vec);
    c.eval(); c.nontrivial();
    bool ok = true; for (int d = 0; d < DIM; ++d) if ((long double)gmin[d] != mn[d] || (long double)gmax[d] != mx[d] || fabsl((long double)gmean[d] - me[d]) > 1e-5L || fabsl((long double)vmean[d] - me[d]) > 1e-5L) ok = false;
    if (!ok) c.violation("EigenContainers.min_max_mean", vf::JO().str("type", tname).i("dim", DIM).i("points", n).i("octant_sign_bits", oct).done(), vf::JO().raw("min", vj(gmin)).raw("max", vj(gmax)).raw("mean", vj(gmean)).done());
  }
}

}  // namespace

// cases: 4 types x 5 first-axis centres (boxes) ; 4 interval ; 8 extents ; 1 containers
uint64_t vf_ncases(const std::string& tier) { g_th = tier == "thorough"; return 20 + 4 + 8 + 1 + 8; }

void vf_run(uint64_t idx, const std::string& tier, vf::Ctx& c) {
  g_th = tier == "thorough";
  if (idx < 20) {
    size_t ic0 = idx % 5;
    switch (idx / 5) { case 0: boxes<double, 2>(c, "double2", ic0); break; case 1: boxes<double, 3>(c, "double3", ic0); break; case 2: boxes<float, 2>(c, "float2", ic0); break; default: boxes<float, 3>(c, "float3", ic0); }
  } else if (idx < 24) {
    switch (idx - 20) { case 0: intervals<double, 2>(c, "double2"); break; case 1: intervals<double, 3>(c, "double3"); break; case 2: intervals<float, 2>(c, "float2"); break; default: intervals<float, 3>(c, "float3"); }
  } else if (idx < 32) {
    switch (idx - 24) {
      case 0: extents<Eigen::Vector2d>(c, "Vector2d"); break; case 1: extents<Eigen::Vector3d>(c, "Vector3d"); break; case 2: extents<Eigen::Vector2f>(c, "Vector2f"); break; case 3: extents<Eigen::Vector3f>(c, "Vector3f"); break;
      case 4: extents<HomogeneousCoordinates2d>(c, "Homogeneous2d"); break; case 5: extents<HomogeneousCoordinates3d>(c, "Homogeneous3d"); break; case 6: extents<HomogeneousCoordinates2f>(c, "Homogeneous2f"); break; default: extents<HomogeneousCoordinates3f>(c, "Homogeneous3f");
    }
  } else if (idx == 32) { containers<double, 2>(c, "double"); containers<double, 3>(c, "double"); containers<float, 2>(c, "float"); containers<float, 3>(c, "float"); }
  else {
    switch (idx - 33) {
      case 0: extreme_positions<Eigen::Vector2d>(c, "Vector2d"); break; case 1: extreme_positions<Eigen::Vector3d>(c, "Vector3d"); break; case 2: extreme_positions<Eigen::Vector2f>(c, "Vector2f"); break; case 3: extreme_positions<Eigen::Vector3f>(c, "Vector3f"); break;
      case 4: extreme_positions<HomogeneousCoordinates2d>(c, "Homogeneous2d"); break; case 5: extreme_positions<HomogeneousCoordinates3d>(c, "Homogeneous3d"); break; case 6: extreme_positions<HomogeneousCoordinates2f>(c, "Homogeneous2f"); break; default: extreme_positions<HomogeneousCoordinates3f>(c, "Homogeneous3f");
    }
  }
}

std::string vf_describe(const std::string& tier) {
  vf::JO o;
  o.vec("centres_per_axis", std::vector<double>(kC, kC + 5)).vec("half_extents_per_axis", std::vector<double>(kH, kH + 3));
  o.str("rotations_thorough", "2D: 64 angles; 3D: + 4 axes x 5 angles and two compositions of elementary rotations");
  o.str("rotations", "2D: 16 angles (multiples of pi/8, some offset by 0.1); 3D: 6 axes x {0,0.3,pi/2,2,pi,-1.1}");
  o.str("query_points", "box-frame lattice per axis {0,+-h/2,+-h,+-h(1+-2^-20),+-2h,+-(h+0.5)} mapped to world; points within 8 ulp of a face accept either verdict, except centre 0 without rotation where the face verdict is exact");
  o.str("intervals", "all pairs of intervals with bounds from {-1000,-1.5,0,0.25,1000}, per-axis rotation of the pair list; 1-D specialisation too");
  o.str("point_sets", "sizes {1,2,3,7,50,1000} x every octant (all-negative included) x offsets {0.5,40,2500} x {lattice, tight cluster, collinear} x 8 point types; recompute on the same object and on a buffer refilled in place; strongly elongated and zero-thickness boxes under every rotation with a per-axis tolerance relative to sum |R| h; the default (whole-space) interval as receiver of include(); sets of {9,33,130,513,600,1030} points with the unique extreme at every index in turn; copy-constructed and assigned-to preconditioners; oriented boxes in constructed / copied / assigned form, intervals through assignment");
  return o.done();
}

VF_MAIN()
