// C07 -- LeastSquares returns the minimiser of the current problem only.
//  L: lattice estimate size x data size x condition number x magnitude x consistency x weights x preconditioner x scalar;
//     oracles: normal-equation residual, Householder-QR reference in long double, Cholesky == SVD path, weighted reference, A x + b.
//  S: every sequence (to a depth) of problems of varying estimate / data sizes solved with ONE solver object; all allocated
//     rows of J, Y, W are poisoned with NaN before each problem is written, so any read past the current data size
//     surfaces; result compared with a fresh solver given the same problem.
#include <romea_core_common/regression/leastsquares/LeastSquares.hpp>
#include "vrun.hpp"
#include <Eigen/Dense>

const char* kProperty = "C07";
using namespace romea::core;
using LM = Eigen::Matrix<long double, Eigen::Dynamic, Eigen::Dynamic>;
using LV = Eigen::Matrix<long double, Eigen::Dynamic, 1>;

namespace {

// J (n x p) with prescribed singular values: U from Householder QR of a deterministic matrix, V a product of Givens rotations
LM make_J(int n, int p, long double kappa, long double mag, int variant) {
  LM A(n, p);
  for (int i = 0; i < n; ++i) for (int j = 0; j < p; ++j) A(i, j) = cosl(0.7L * (i + 1) * (j + 1) + variant) + (i == j ? 2 : 0) + sinl(0.31L * (i + 2) * (j + 3) * (variant + 1));
  Eigen::HouseholderQR<LM> qr(A);
  LM U = qr.householderQ() * LM::Identity(n, p);
  LM V = LM::Identity(p, p);
  for (int i = 0; i < p; ++i) for (int j = i + 1; j < p; ++j) { long double a = 0.37L + 0.11L * i - 0.23L * j + 0.05L * variant; LM G = LM::Identity(p, p); G(i, i) = cosl(a); G(j, j) = cosl(a); G(i, j) = -sinl(a); G(j, i) = sinl(a); V = V * G; }
  LV s(p); for (int j = 0; j < p; ++j) s(j) = mag * (p == 1 ? 1 : powl(kappa, -(long double)j / (p - 1)));
  return U * s.asDiagonal() * V.transpose();
}

template <class S> struct Problem {
  using Mat = Eigen::Matrix<S, Eigen::Dynamic, Eigen::Dynamic>; using Vec = Eigen::Matrix<S, Eigen::Dynamic, 1>;
  int n, p; Mat J; Vec Y, W; bool weighted = false; bool precond = false; Vec Adiag, b;
};

template <class S> Problem<S> make_problem(int n, int p, long double kappa, long double mag, int consistency, int weights, int prec, int variant) {
  Problem<S> P; P.n = n; P.p = p;
  using PVec = typename Problem<S>::Vec;
  LM Jl = make_J(n, p, kappa, mag, variant);
  P.J = Jl.template cast<S>();
  LV xt(p); for (int j = 0; j < p; ++j) xt(j) = (1 + j) * (j % 2 ? -0.5L : 1.0L) / mag;
  LV Yl = P.J.template cast<long double>() * xt;
  if (consistency) for (int i = 0; i < n; ++i) Yl(i) += 0.3L * sinl(1.3L * i + variant) * (consistency == 2 ? 10 : 1);
  P.Y = Yl.template cast<S>();
  P.W = PVec::Ones(n);
  if (weights) { P.weighted = true; for (int i = 0; i < n; ++i) P.W(i) = weights == 1 ? (S)(i % 2 ? 0.25 : 4.0) : weights == 2 ? (S)(i == n / 2 ? 0 : 1) : (S)(i == 0 ? 1000 : 1); }
  if (prec) { P.precond = true; P.Adiag = PVec(p); P.b = PVec::Zero(p); for (int j = 0; j < p; ++j) { P.Adiag(j) = prec == 3 ? (S)1 : (S)(j % 2 ? 0.5 : 3.0); if (prec >= 2) P.b(j) = (S)(0.25 * (j + 1)); } }   // 1: diagonal, 2: diagonal + offset, 3: identity + offset
  return P;
}

// write a problem into a solver the way a caller does; all allocated rows are NaN-poisoned first
template <class S> void load(LeastSquares<S>& ls, const Problem<S>& P, bool poison) {
  ls.setDataSize(P.n);
  if (poison) {
    S nan = std::numeric_limits<S>::quiet_NaN();
    ls.getJ().setConstant(nan); ls.getY().setConstant(nan); ls.getW().setConstant(nan);
  }
  for (int i = 0; i < P.n; ++i) { for (int j = 0; j < P.p; ++j) ls.getJ()(i, j) = P.J(i, j); ls.getY()(i) = P.Y(i); ls.getW()(i) = P.W(i); }
  if (P.precond) { typename Problem<S>::Mat A = P.Adiag.asDiagonal(); ls.setPreconditionner(A, P.b); }
}
template <class S> typename Problem<S>::Vec solve(LeastSquares<S>& ls, const Problem<S>& P, int solver) {
  if (P.weighted) return ls.weightedEstimate();
  return solver == 0 ? ls.estimateUsingCholeskyDecomposition() : ls.estimateUsingSVD();
}

template <class S> void lattice(vf::Ctx& c, const char* tname, int p, int ni) {
  using Vec = typename Problem<S>::Vec;
  const bool dbl = std::is_same<S, double>::value;
  long double eps = std::numeric_limits<S>::epsilon();
  std::vector<int> ns = {p, p + 1, 2 * p, 50, 500, 31, 32, 64, 257};   // incl. sizes around multiples of the SIMD packet / typical block sizes
  // ni == 9: EVERY data size from p to 500 (the statement quantifies over all of them) on a reduced configuration lattice
  const bool allSizes = ni == 9;
  std::vector<int> nlist; if (allSizes) for (int k = p; k <= 500; ++k) nlist.push_back(k); else nlist.push_back(ns[ni]);
  std::vector<long double> kappas = {1, 1e2L, 3e2L, 1e4L, 1e6L};
  std::vector<long double> mags = dbl ? std::vector<long double>{powl(2, -27), powl(2, -10), 1, powl(2, 10)} : std::vector<long double>{powl(2, -13), powl(2, -6), 1, powl(2, 6)};
  if (allSizes) { kappas = {30}; mags = {1}; }
  for (int n : nlist) for (long double kappa : kappas) for (long double mag : mags) for (int cons = 0; cons < 3; ++cons) for (int w = 0; w < 4; ++w) for (int prec = 0; prec < 4; ++prec) {
    if (allSizes && (cons != 1 || w > 1 || (prec != 0 && prec != 2))) continue;
    if (p == 1 && kappa != 1 && !allSizes) continue;
    Problem<S> P = make_problem<S>(n, p, kappa, mag, cons, w, prec, 0);
    // reference: (weighted) least squares by Householder QR in long double on the problem as stored in S
    LM Jl = P.J.template cast<long double>(); LV Yl = P.Y.template cast<long double>();
    if (P.weighted) { for (int i = 0; i < n; ++i) { Jl.row(i) *= (long double)P.W(i); Yl(i) *= (long double)P.W(i); } }
    Eigen::JacobiSVD<LM> svd(Jl);
    long double smax = svd.singularValues()(0), smin = svd.singularValues()(p - 1);
    long double kap = smax / smin;
    std::string params = vf::JO().str("type", tname).i("estimate_size", p).i("data_size", n).num("kappa_nominal", kappa).num("kappa_actual", kap).num("magnitude", mag).i("consistency", cons).i("weights", w).i("preconditioner", prec).done();
    if (!(kap < 1e6L * 1.0001L) || 8 * p * kap * kap * eps > 0.5L) { c.trivial(); continue; }   // outside the quantifier / normal equations carry no digits in this precision
    LV x0 = Jl.householderQr().solve(Yl);
    LV xref = x0; if (P.precond) for (int j = 0; j < p; ++j) xref(j) = (long double)P.Adiag(j) * x0(j) + (long double)P.b(j);
    long double tolx = 8 * p * eps * kap * kap * (x0.norm() + Yl.norm() / smax);
    Vec got[2];
    for (int solver = 0; solver < (P.weighted ? 1 : 2); ++solver) {
      LeastSquares<S> ls(p);
      load(ls, P, true);
      Vec x = solve(ls, P, solver); got[solver] = x;
      c.eval(); if (kappa > 1 || mag != 1 || w || prec) c.nontrivial();
      for (int j = 0; j < p; ++j) c.obs((double)x(j));
      const char* sname = P.weighted ? "weightedEstimate" : solver ? "estimateUsingSVD" : "estimateUsingCholeskyDecomposition";
      LV xl = x.template cast<long double>();
      LV xu = xl; if (P.precond) for (int j = 0; j < p; ++j) xu(j) = (xl(j) - (long double)P.b(j)) / (long double)P.Adiag(j);   // undo A x + b
      bool finite = xl.allFinite();
      long double err = finite ? (xl - xref).norm() : HUGE_VALL;
      long double tolp = tolx * (P.precond ? 3 : 1) + 8 * eps * xref.norm();   // A x0 + b is formed in S
      c.note_max(std::string("x_err_over_tol_") + tname, (double)(err / tolp));
      if (!(err <= tolp)) { c.violation(std::string("LeastSquares.") + sname + ".vsQRreference", params, vf::JO().num("err", err).num("tol", tolp).num("x_norm", xref.norm()).done()); continue; }
      LV res = Jl.transpose() * (Jl * xu - Yl);
      long double tolr = 64 * p * eps * kap * kap * (smax * smax * xu.norm() + smax * Yl.norm());
      if (P.precond) tolr += 16 * eps * smax * smax * (xl.norm() + P.b.template cast<long double>().norm()) / (long double)P.Adiag.cwiseAbs().minCoeff();   // undoing A x + b from the rounded result
      if (!(res.norm() <= tolr)) c.violation(std::string("LeastSquares.") + sname + ".normalEquationResidual", params, vf::JO().num("residual", res.norm()).num("tol", tolr).done());
    }
    if (!P.weighted && got[0].size() && got[1].size()) {
      long double d = (got[0] - got[1]).template cast<long double>().norm();
      if (!(d <= 2 * (tolx * (P.precond ? 3 : 1) + 8 * eps * xref.norm()))) c.violation("LeastSquares.CholeskyVsSVD", params, vf::JO().num("difference", d).num("tol", 2 * tolx).done());
    }
    if (c.want_sample()) c.sample(params);
  }
}

// ---- S: one solver object, sequences of problems ------------------------------------------------------------------
struct Op { int p, nsel, solver, prec; };   // solver 0 Cholesky, 1 SVD, 2 weighted; prec 0 keep the current preconditioner, 1 setPreconditionner(A,b), 2 setPreconditionner(A)
// longRun: a fixed script of 40 problems (cycling through the 81 kinds) with ONE deviation: position firstOp is replaced by every operation in turn
template <class S> void sequences(vf::Ctx& c, const char* tname, int depth, int firstOp, bool longRun = false) {
  using Vec = typename Problem<S>::Vec;
  std::vector<Op> ops;
  for (int p = 1; p <= 3; ++p) for (int ns = 0; ns < 3; ++ns) for (int s = 0; s < 3; ++s) for (int pr = 0; pr < 3; ++pr) ops.push_back({p, ns, s, pr});
  const int NPROB = (int)ops.size();
  const int NOPS = NPROB + 2;   // + "other = solver; continue with other" (other has a past of its own), "continue with a copy-constructed solver"
  long double eps = std::numeric_limits<S>::epsilon();
  const int len = longRun ? 40 : depth;
  uint64_t total = 1; if (longRun) total = NOPS; else for (int i = 1; i < depth; ++i) total *= NOPS;
  std::set<uint64_t> states;
  std::vector<int> seq(len), base(len); if (!longRun) seq[0] = firstOp;
  for (int i = 0; i < len; ++i) base[i] = (i * 37 + 11) % NPROB;
  LeastSquares<S> usedSolver(2);   // a solver with a past of its own (another estimate size, a preconditioner, a solved problem): the target of the assignment operation
  { Problem<S> Q = make_problem<S>(8, 2, 3, 1, 1, 0, 0, 7); usedSolver.setDataSize(8); load(usedSolver, Q, false); Vec A2(2); A2 << (S)2, (S)0.5; typename Problem<S>::Mat Am = A2.asDiagonal(); usedSolver.setPreconditionner(Am, A2); solve(usedSolver, Q, 1); }
  for (uint64_t k = 0; k < total; ++k) {
    if (longRun) { if (firstOp == 0 && (int)k >= NPROB) continue; seq = base; seq[firstOp] = (int)k; }
    else { uint64_t r = k; for (int i = 1; i < depth; ++i) { seq[i] = r % NOPS; r /= NOPS; } }
    std::unique_ptr<LeastSquares<S>> cur(new LeastSquares<S>(ops[seq[0]].p)), other(new LeastSquares<S>(usedSolver));
#define ls (*cur)
    int curP = ops[seq[0]].p;
    // model of the configured preconditioner: identity / zero after construction and after setEstimateSize
    Vec mA = Vec::Ones(curP), mb = Vec::Zero(curP);
    for (int i = 0; i < len; ++i) {
      if (seq[i] == NPROB) { c.transitions(); *other = *cur; std::swap(cur, other); continue; }
      if (seq[i] == NPROB + 1) { c.transitions(); std::unique_ptr<LeastSquares<S>> cp(new LeastSquares<S>(*cur)); other = std::move(cur); cur = std::move(cp); continue; }
      const Op& o = ops[seq[i]];
      int n = o.nsel == 0 ? o.p : o.nsel == 1 ? o.p + 2 : 8;
      Problem<S> P = make_problem<S>(n, o.p, 3, 1, 1, o.solver == 2 ? 1 : 0, 0, i + 1);
      if (o.p != curP) { ls.setEstimateSize(o.p); curP = o.p; mA = Vec::Ones(curP); mb = Vec::Zero(curP); }   // the estimate size changes only when the problem needs it
      if (o.prec) {
        Vec A(o.p), b(o.p); for (int j = 0; j < o.p; ++j) { A(j) = (S)(j % 2 ? 0.5 : 3.0) + (S)(0.25 * i); b(j) = (S)(0.25 * (j + 1) + i); }
        typename Problem<S>::Mat Am = A.asDiagonal();
        if (o.prec == 1) { ls.setPreconditionner(Am, b); mA = A; mb = b; } else { ls.setPreconditionner(Am); mA = A; mb = Vec::Zero(o.p); }
      }
      c.transitions(); c.eval(); if (i) c.nontrivial();
      auto params = [&]() { std::vector<std::string> h; for (int j = 0; j <= i; ++j) { if (seq[j] >= NPROB) { h.push_back(seq[j] == NPROB ? "other = solver; continue with other" : "continue with a copy-constructed solver"); continue; } const Op& q = ops[seq[j]]; char b[128]; snprintf(b, 128, "problem(p=%d,n=%d,%s,%s)", q.p, q.nsel == 0 ? q.p : q.nsel == 1 ? q.p + 2 : 8, q.solver == 0 ? "Cholesky" : q.solver == 1 ? "SVD" : "weighted", q.prec == 0 ? "preconditioner kept" : q.prec == 1 ? "setPreconditionner(A,b)" : "setPreconditionner(A)"); h.push_back(b); } return vf::JO().str("type", tname).strs("history", h).done(); };
      // the design matrix the solver exposes must be able to hold the problem once the data size is set
      ls.setDataSize(n);
      if (ls.getJ().cols() < o.p || ls.getJ().rows() < n || ls.getY().rows() < n || ls.getW().rows() < n) {
        c.violation("LeastSquares.buffersAfterResize", params(), vf::JO().i("J_rows", ls.getJ().rows()).i("J_cols", ls.getJ().cols()).i("want_cols_at_least", o.p).i("want_rows_at_least", n).done());
        break;
      }
      load(ls, P, true);
      Vec x = solve(ls, P, o.solver == 2 ? 0 : o.solver);
      // fresh solver given the same problem and the preconditioner the model says is configured
      LeastSquares<S> fresh(o.p);
      load(fresh, P, false);
      { typename Problem<S>::Mat Am = mA.asDiagonal(); fresh.setPreconditionner(Am, mb); }
      Vec xf = solve(fresh, P, o.solver == 2 ? 0 : o.solver);
      for (int j = 0; j < o.p; ++j) c.obs((double)x(j));
      long double d = x.template cast<long double>().allFinite() ? (x - xf).template cast<long double>().norm() : HUGE_VALL;
      long double tol = 256 * eps * 9 * (1 + xf.template cast<long double>().norm());
      if (!(d <= tol)) { c.violation("LeastSquares.dependsOnHistory", params(), vf::JO().num("difference_vs_fresh", d).num("tol", tol).done()); break; }
      // solving is also a query on the loaded problem: the unweighted paths leave J and Y untouched, so the same problem solved again by the other
      // path and then by the first one gives the answers of a fresh solver (weightedEstimate() rescales J and Y in place and is not asked twice)
      if (o.solver != 2) {
        Vec x2 = solve(ls, P, 1 - o.solver), xf2 = solve(fresh, P, 1 - o.solver);
        Vec x3 = solve(ls, P, o.solver);
        for (int j = 0; j < o.p; ++j) { c.obs((double)x2(j)); c.obs((double)x3(j)); }
        long double d2 = x2.template cast<long double>().allFinite() ? (x2 - xf2).template cast<long double>().norm() : HUGE_VALL;
        long double d3 = x3.template cast<long double>().allFinite() ? (x3 - xf).template cast<long double>().norm() : HUGE_VALL;
        long double tol2 = 256 * eps * 9 * (1 + xf2.template cast<long double>().norm());
        if (!(d2 <= tol2) || !(d3 <= tol)) { c.violation("LeastSquares.solveAgain.dependsOnHistory", params(), vf::JO().num("other_path_difference_vs_fresh", d2).num("same_path_again_difference_vs_fresh", d3).num("tol", tol).done()); break; }
      }
      uint64_t h = 5; h = vf::mix64(h, ls.getJ().rows()); h = vf::mix64(h, ls.getJ().cols()); h = vf::mix64(h, o.p); h = vf::mix64(h, o.prec); states.insert(h);
    }
#undef ls
    c.traces();
    if (c.want_sample() && k == total / 2) c.sample(vf::JO().str("type", tname).vec("op_indexes", seq).done());
    if (c.c.violations > 30) return;
  }
  c.states(states.size());
}


// ---- S3: data-size profiles on one solver (a big problem followed by many small ones, shrinking, alternating ...) -------------------
template <class S> void size_profiles(vf::Ctx& c, const char* tname) {
  using Vec = typename Problem<S>::Vec; using Mat = typename Problem<S>::Mat;
  long double eps = std::numeric_limits<S>::epsilon();
  std::vector<std::vector<int>> profiles;
  { std::vector<int> v = {400}; for (int i = 0; i < 15; ++i) v.push_back(40 + i % 10); profiles.push_back(v); }        // one big, then many below a quarter of it
  { std::vector<int> v = {400}; for (int i = 0; i < 15; ++i) v.push_back(99 + (i % 2)); profiles.push_back(v); }       // just below / at a quarter
  { std::vector<int> v = {8, 500}; for (int i = 0; i < 14; ++i) v.push_back(8); profiles.push_back(v); }
  { std::vector<int> v; for (int n = 500; n >= 8; n = n * 2 / 3) v.push_back(n); for (int i = 0; i < 8; ++i) v.push_back(8); profiles.push_back(v); }   // shrinking
  { std::vector<int> v; for (int i = 0; i < 16; ++i) v.push_back(i % 2 ? 40 : 400); profiles.push_back(v); }          // alternating
  { std::vector<int> v; for (int i = 0; i < 16; ++i) v.push_back(8 + 33 * i); profiles.push_back(v); }                 // growing
  // held: the caller keeps the references returned by getJ() / getY() / getW() from before the first problem (the members stay the same objects
  // across setDataSize); illCond: every third problem is ill-conditioned (kappa 1e5 in double, 1e2 in float)
  for (int p : {2, 3, 6}) for (size_t ip = 0; ip < profiles.size(); ++ip) for (int prec = 0; prec < 2; ++prec) for (int pattern = 0; pattern < 4; ++pattern) for (int held = 0; held < 2; ++held) for (int illCond = 0; illCond < 2; ++illCond) for (int colScale = 0; colScale < 2; ++colScale) {
    if (colScale && (illCond || held)) continue;
    LeastSquares<S> ls(p);
    auto& Jheld = ls.getJ(); auto& Yheld = ls.getY(); auto& Wheld = ls.getW();
    Vec A(p), b(p); for (int j = 0; j < p; ++j) { A(j) = (S)(j % 2 ? 0.5 : 3.0); b(j) = (S)(0.25 * (j + 1)); }
    Mat Am = A.asDiagonal();
    if (prec) ls.setPreconditionner(Am, b);   // configured once, before the first problem
    for (size_t i = 0; i < profiles[ip].size(); ++i) {
      int n = std::max(profiles[ip][i], p);
      int solver = pattern == 2 ? (int)(i % 2) : pattern == 3 ? 0 : pattern;
      long double kap = (illCond && i % 3 == 2 && p > 1) ? (std::is_same<S, double>::value ? 1e5L : 1e2L) : 3;
      Problem<S> P = make_problem<S>(n, p, kap, 1, 1, pattern == 3 ? 1 : 0, 0, (int)i + 1);
      if (colScale && p > 1) {   // one column much larger than the others, a different column (and factor) from problem to problem: 2e4, 5e3, none, 5e3, 2e4 ...
        const double f[5] = {2e4, 5e3, 1, 5e3, 2e4}; const int col[5] = {0, 1, 0, 0, 1}; if (std::is_same<S, double>::value) P.J.col(col[i % 5]) *= (S)f[i % 5]; else P.J.col(col[i % 5]) *= (S)std::sqrt(f[i % 5]);
      }
      if (held) {
        ls.setDataSize(n);
        S nan = std::numeric_limits<S>::quiet_NaN(); Jheld.setConstant(nan); Yheld.setConstant(nan); Wheld.setConstant(nan);
        for (int r = 0; r < n; ++r) { for (int j = 0; j < p; ++j) Jheld(r, j) = P.J(r, j); Yheld(r) = P.Y(r); Wheld(r) = P.W(r); }
      } else load(ls, P, true);
      Vec x = solve(ls, P, solver);
      LeastSquares<S> fresh(p); load(fresh, P, false); if (prec) fresh.setPreconditionner(Am, b);
      Vec xf = solve(fresh, P, solver);
      c.transitions(); c.eval(); if (i) c.nontrivial();
      for (int j = 0; j < p; ++j) c.obs((double)x(j));
      long double d = x.template cast<long double>().allFinite() ? (x - xf).template cast<long double>().norm() : HUGE_VALL;
      long double tol = 256 * eps * 9 * (1 + xf.template cast<long double>().norm());
      if (!(d <= tol)) {
        c.violation("LeastSquares.dependsOnHistory", vf::JO().str("type", tname).str("explorer", "size profiles").i("estimate_size", p).vec("data_sizes", std::vector<int>(profiles[ip].begin(), profiles[ip].begin() + i + 1)).b("preconditioner_set_once", prec).b("references_to_J_Y_W_held_from_the_start", held).b("every_third_problem_ill_conditioned", illCond).b("one_dominant_column_changing_from_problem_to_problem", colScale).str("solvers", pattern == 0 ? "Cholesky" : pattern == 1 ? "SVD" : pattern == 2 ? "alternating" : "weighted").done(), vf::JO().num("difference_vs_fresh", d).num("tol", tol).done());
        break;
      }
    }
    c.traces();
  }
}


// ---- general (non-diagonal) affine preconditioners: A x + b component by component ---------------------------------------------------------
template <class S> void dense_preconditioners(vf::Ctx& c, const char* tname) {
  using Vec = typename Problem<S>::Vec; using Mat = typename Problem<S>::Mat;
  long double eps = std::numeric_limits<S>::epsilon();
  for (int p : {2, 3, 6}) for (int n : {p + 2, 40}) for (int kind = 0; kind < 4; ++kind) for (int solver = 0; solver < 3; ++solver) {
    Problem<S> P = make_problem<S>(n, p, 3, 1, 1, solver == 2 ? 1 : 0, 0, kind + 1);
    Mat A = Mat::Identity(p, p); Vec b(p); for (int j = 0; j < p; ++j) b(j) = (S)(0.125 * (j + 1));
    if (kind == 0) { for (int i = 0; i < p; ++i) for (int j = 0; j < p; ++j) A(i, j) = (S)((i == j ? 1.5 : 0.0) + 0.3 * std::cos(1.0 + 2.0 * i + 0.7 * j)); }           // generic dense
    if (kind == 1) { for (int j = 0; j < p; ++j) A(j, j) = (S)(j == 0 ? 2e6 : 1.0); A(p - 1, 0) = (S)1e-7; }                                              // mixed-scale diagonal with a coupling that is tiny only relative to the largest entry
    if (kind == 2) { for (int j = 0; j < p; ++j) A(j, j) = (S)(j % 2 ? 1e-3 : 1e3); A(0, p - 1) = (S)(std::is_same<S, double>::value ? 1e-10 : 1e-3); }   // the same the other way round
    if (kind == 3) { for (int i = 0; i < p; ++i) for (int j = i; j < p; ++j) A(i, j) = (S)(1.0 + 0.25 * (j - i)); }                                        // upper triangular
    LM Jl = P.J.template cast<long double>(); LV Yl = P.Y.template cast<long double>();
    if (P.weighted) for (int i = 0; i < n; ++i) { Jl.row(i) *= (long double)P.W(i); Yl(i) *= (long double)P.W(i); }
    Eigen::JacobiSVD<LM> svd(Jl); long double smax = svd.singularValues()(0), kap = smax / svd.singularValues()(p - 1);
    LV x0 = Jl.householderQr().solve(Yl);
    LM Al = A.template cast<long double>(); LV want = Al * x0 + b.template cast<long double>();
    long double tolx = 8 * p * eps * kap * kap * (x0.norm() + Yl.norm() / smax);
    LeastSquares<S> ls(p); load(ls, P, true); ls.setPreconditionner(A, b);
    Vec x = solve(ls, P, solver == 2 ? 0 : solver);
    c.eval(); c.nontrivial();
    for (int i = 0; i < p; ++i) {
      long double rowsum = 0; for (int j = 0; j < p; ++j) rowsum += fabsl(Al(i, j));
      long double tol = 3 * tolx * rowsum + 16 * eps * (fabsl(want(i)) + rowsum * x0.norm()) + 1e-300L, err = fabsl((long double)x(i) - want(i));
      c.obs((double)x(i));
      if (!(err <= tol)) { c.violation("LeastSquares.preconditioner.notAxPlusB", vf::JO().str("type", tname).i("estimate_size", p).i("data_size", n).i("preconditioner_kind", kind).str("solver", solver == 0 ? "Cholesky" : solver == 1 ? "SVD" : "weighted").done(), vf::JO().i("component", i).num("got", x(i)).num("want", want(i)).num("tol", tol).done()); break; }
    }
  }
}

}  // namespace

// cases: L: 2 types x 8 p x 9 n ; S: 2 types x 81 first ops
uint64_t vf_ncases(const std::string& tier) { return 144 + 162 + 80 + 16 + 2 + 2; }

void vf_run(uint64_t idx, const std::string& tier, vf::Ctx& c) {
  if (idx < 144) { int t = idx / 72, p = (idx % 72) / 9 + 1, ni = idx % 9; if (t == 0) lattice<double>(c, "double", p, ni); else lattice<float>(c, "float", p, ni); }
  else if (idx < 144 + 162) { int k = (int)idx - 144; int depth = tier == "thorough" ? 4 : 3; if (k < 81) sequences<double>(c, "double", depth, k); else sequences<float>(c, "float", depth, k - 81); }
  else if (idx < 386) { int k = (int)idx - 306; if (k < 40) sequences<double>(c, "double", 0, k, true); else sequences<float>(c, "float", 0, k - 40, true); }
  else if (idx < 402) { int k = (int)idx - 386; if (k < 8) lattice<double>(c, "double", k + 1, 9); else lattice<float>(c, "float", k - 8 + 1, 9); }
  else if (idx == 402) size_profiles<double>(c, "double"); else if (idx == 403) size_profiles<float>(c, "float");
  else if (idx == 404) dense_preconditioners<double>(c, "double"); else dense_preconditioners<float>(c, "float");
}

std::string vf_describe(const std::string& tier) {
  vf::JO o;
  o.str("L", "estimate size 1..8 x data size {p,p+1,2p,50,500,31,32,64,257} x kappa {1,1e2,3e2,1e4,1e6} x magnitude {2^-27,2^-10,1,2^10} (float {2^-13,2^-6,1,2^6}) x Y {consistent, inconsistent, strongly inconsistent} x weights {none, alternating 1/4..4, one zero, one huge} x preconditioner {none, diagonal, diagonal+offset, identity+offset}; cases with 8 p kappa^2 eps > 0.5 are skipped (no digits in the normal equations)");
  o.str("L_dense_preconditioners", "non-diagonal A: generic dense, mixed-scale diagonal (2e6 / 1, 1e3 / 1e-3) with one coupling entry that is tiny only relative to the largest entry, upper triangular; estimate sizes {2,3,6}, all three solver paths; A x + b compared component by component relative to the row of A");
  o.str("S_size_profiles", "one solver through 16-problem histories of data sizes: one big then many small (below / around a quarter), 8-500-8.., shrinking by 2/3, alternating 400/40, growing; estimate sizes {2,3,6}; preconditioner set once or never; Cholesky / SVD / alternating / weighted; J/Y/W written through references fetched per problem or held from before the first problem; every third problem optionally ill-conditioned; optionally one dominant column (x2e4 / x5e3) that changes from problem to problem; each answer vs a fresh solver");
  o.str("L_all_sizes", "every data size from p to 500 for p = 1..8, float and double, kappa 30, inconsistent Y, weights {none, alternating}, preconditioner {none, diagonal+offset}, all three solver paths");
  o.str("L_oracle", "Householder-QR solution in long double; |x - x_ref| <= 8 p eps kappa^2 (|x|+|Y|/smax); normal-equation residual; Cholesky vs SVD path");
  o.i("S_depth", tier == "thorough" ? 4 : 3).str("S_ops", "problem(p in 1..3 (setEstimateSize when it changes), n in {p,p+2,8}, solver in {Cholesky, SVD, weighted}, preconditioner {kept, setPreconditionner(A,b), setPreconditionner(A)}) = 81 operations, plus (after the first) 'assign the solver to another long-lived solver and continue with that one' and 'continue with a copy-constructed solver'; the model tracks the configured preconditioner; buffers NaN-poisoned before each problem; result vs fresh solver within 256*9 eps");
  o.str("S_long", "a fixed script of 40 problems cycling through the 81 kinds on one solver, and every variant with ONE position replaced by any of the 83 operations (deviation bound 1); same oracle after every step");
  return o.done();
}

VF_MAIN()
