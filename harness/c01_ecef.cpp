// C01 -- ECEF <-> geodetic conversion is an accurate bijection near the Earth.
#include <romea_core_common/geodesy/ECEFConverter.hpp>
#include "vrun.hpp"
#include "georef.hpp"

const char* kProperty = "C01";
using namespace romea::core;
using georef::PI;

namespace {

struct EllCfg { double a, b; const char* name; };
std::vector<EllCfg> ellipsoids() {
  std::vector<EllCfg> v;
  v.push_back({EarthEllipsoid::GRS80.a, EarthEllipsoid::GRS80.b, "GRS80(library default)"});
  v.push_back({6378249.2, 6356515.0, "Clarke1880IGN"});
  v.push_back({6378388.0, 6356911.946116942, "International1924"});
  const double a0 = 6378137.0;
  for (double da : {-1e-3, 0.0, 1e-3}) for (double f : {0.0, 1 / 600.0, 1 / 298.257222101, 1 / 290.0}) { double a = a0 * (1 + da); v.push_back({a, a * (1 - f), "a0*(1+da),f"}); }
  return v;
}
std::vector<double> latitudes(bool th) {
  std::vector<double> v;
  double step = th ? 0.1 : 5.0;
  for (int i = 0; -89.9 + i * step <= 89.9 + 1e-9; ++i) v.push_back(-89.9 + i * step);
  if (th) for (int i = 0; i <= 90; ++i) { v.push_back(89.0 + 0.01 * i); v.push_back(-(89.0 + 0.01 * i)); }   // polar band 89..89.9 step 0.01
  for (double d : {0.0, 1e-9, -1e-9, 45.0, -45.0, 89.0, -89.0, 89.9, -89.9, 80.0, -80.0, -85.0, 85.0, 33.3}) v.push_back(d);
  std::sort(v.begin(), v.end()); v.erase(std::unique(v.begin(), v.end()), v.end());
  for (auto& d : v) d = d * M_PI / 180;
  return v;
}
std::vector<double> longitudes(bool th) {
  std::vector<double> v;
  double step = th ? 1.0 : 15.0;
  for (double d = -180; d <= 180; d += step) v.push_back(std::max(-M_PI, std::min(M_PI, d * M_PI / 180)));
  v.push_back(M_PI); v.push_back(-M_PI);
  for (int k = 3; k <= 15; ++k) { double e = std::pow(10.0, -k); v.push_back(M_PI - e); v.push_back(-(M_PI - e)); }
  for (int k : {3, 6, 9, 12, 15}) { double e = std::pow(10.0, -k); v.push_back(e); v.push_back(-e); v.push_back(M_PI / 2 + e); v.push_back(M_PI / 2 - e); v.push_back(-M_PI / 2 + e); v.push_back(-M_PI / 2 - e); }
  v.push_back(0); v.push_back(M_PI / 2); v.push_back(-M_PI / 2);
  std::sort(v.begin(), v.end()); v.erase(std::unique(v.begin(), v.end()), v.end());
  return v;
}
const double kHeights[] = {-11000, -500, 0, 1, 500, 9000, 100000};

// a converter on another ellipsoid (Clarke 1880 IGN) that is handed the bit-identical inputs right before the converter under test
const ECEFConverter& other_converter() { static const ECEFConverter o(EarthEllipsoid(6378249.2, 6356515.0)); return o; }

void check_cartesian(vf::Ctx& c, const ECEFConverter& conv, const georef::Ell& E, const Eigen::Vector3d& P, const std::string& params) {
  c.eval();
  (void)other_converter().toWGS84(P);
  GeodeticCoordinates g = conv.toWGS84(P);
  c.obs(g.latitude); c.obs(g.longitude); c.obs(g.altitude);
  bool finite = std::isfinite(g.latitude) && std::isfinite(g.longitude) && std::isfinite(g.altitude);
  if (!finite || g.latitude < -M_PI / 2 || g.latitude > M_PI / 2 || g.longitude < -M_PI || g.longitude > M_PI) {
    c.violation("ECEFConverter.toWGS84.range", params, vf::JO().num("lat", g.latitude).num("lon", g.longitude).num("alt", g.altitude).done()); return;
  }
  Eigen::Vector3d back = conv.toECEF(g);
  long double err = georef::dist({back[0], back[1], back[2]}, {P[0], P[1], P[2]});
  c.note_max("cartesian_roundtrip_m", (double)err);
  if (!(err <= 1e-3L)) c.violation("ECEFConverter.toECEF(toWGS84(P))", params, vf::JO().num("err_m", err).num("lat", g.latitude).num("lon", g.longitude).num("alt", g.altitude).done());
  // agreement with the reference inverse (definition: foot point of the ellipsoid normal through P)
  georef::Geo r = georef::geodetic(E, {P[0], P[1], P[2]});
  long double r_xy = sqrtl((long double)P[0] * P[0] + (long double)P[1] * P[1]);
  bool lonDefined = r_xy > 1e-3L;
  if (fabsl(r.lat - g.latitude) > 1e-9L || (lonDefined && georef::angdiff(r.lon, g.longitude) > 1e-9L) || fabsl(r.h - g.altitude) > 1e-3L)
    c.violation("ECEFConverter.toWGS84.vsDefinition", params, vf::JO().num("lat", g.latitude).num("want_lat", r.lat).num("lon", g.longitude).num("want_lon", r.lon).num("alt", g.altitude).num("want_alt", r.h).done());
}


// ---- T: trajectories on ONE long-lived converter ---------------------------------------------------------------------------------
// consecutive nearby inputs at graded step sizes (a receiver that stands still, creeps, walks, drives); every answer of the long-lived
// converter must satisfy the same point-wise clauses as a fresh one (forward map vs definition, both round trips)
void point_checks(vf::Ctx& c, const ECEFConverter& conv, const georef::Ell& E, double lat, double lon, double h, const std::string& params) {
  c.eval(); c.nontrivial();
  Eigen::Vector3d P = conv.toECEF(makeGeodeticCoordinates(lat, lon, h));
  for (int i = 0; i < 3; ++i) c.obs(P[i]);
  georef::V3 ref = georef::ecef(E, lat, lon, h);
  long double dref = georef::dist({P[0], P[1], P[2]}, ref);
  c.note_max("trajectory_forward_vs_definition_m", (double)dref);
  if (!(dref <= 1e-6L)) { c.violation("ECEFConverter.toECEF.vsDefinition", params, vf::JO().num("vs_reference_m", dref).done()); return; }
  GeodeticCoordinates r = conv.toWGS84(P);
  long double elat = fabsl((long double)r.latitude - lat), elon = georef::angdiff(r.longitude, lon), eh = fabsl((long double)r.altitude - h);
  c.note_max("trajectory_roundtrip_lat_rad", (double)elat); c.note_max("trajectory_roundtrip_h_m", (double)eh);
  if (!(elat <= 1e-9L) || !(elon <= 1e-9L) || !(eh <= 1e-3L)) { c.violation("ECEFConverter.toWGS84(toECEF(g))", params, vf::JO().num("lat_err", elat).num("lon_err", elon).num("h_err", eh).done()); return; }
  check_cartesian(c, conv, E, P, params);
}
const double kTrajSteps[] = {1e-12, 2.5e-10, 1e-9, 4e-9, 2.5e-8, 1.3e-7, 6e-7, 1e-5, 1e-4, 1.57e-3};   // rad; x 6.4e6 m: 6 um ... 10 km
const int kNTrajSteps = 10;
void trajectory(vf::Ctx& c, size_t ie, size_t ilat, bool th) {
  auto ells = ellipsoids(); const EllCfg& ec = ells[ie];
  const double lats[] = {0.0, 45.78, -37.0, 61.17, 78.0, -89.0};
  double lat0 = lats[ilat] * M_PI / 180, lon0 = -1.0038 + 0.4 * ilat;
  EarthEllipsoid lib(ec.a, ec.b); georef::Ell E{ec.a, ec.b};
  ECEFConverter conv(lib);   // one converter for every trajectory of the case
  int len = th ? 400 : 60;
  for (int is = 0; is < kNTrajSteps; ++is) for (int dir = 0; dir < 4; ++dir) for (int pat = 0; pat < 2; ++pat) {
    double s = kTrajSteps[is];
    for (int i = 0; i < len; ++i) {
      double f = pat == 0 ? (double)i : (double)((i % 2) ? (i + 1) / 2 : -(i / 2));   // drift / widening back-and-forth
      double lat = lat0 + (dir == 0 || dir == 2 ? f * s * (lat0 > 1.4 || lat0 < -1.4 ? (lat0 > 0 ? -1 : 1) : 1) : 0), lon = lon0 + (dir == 1 || dir == 2 ? f * s : 0), h = 120.0 + (dir == 3 ? f * s * 6.4e6 : 0);
      if (std::fabs(lat) > 89.9 * M_PI / 180 || h < -11000 || h > 100000) break;
      std::string params = vf::JO().str("explorer", "trajectory").str("ellipsoid", ec.name).num("start_lat", lat0).num("step_rad", s).str("direction", dir == 0 ? "north" : dir == 1 ? "east" : dir == 2 ? "north-east" : "up").str("pattern", pat ? "back-and-forth" : "drift").i("step_index", i).done();
      uint64_t before = c.c.violations;
      point_checks(c, conv, E, lat, lon, h, params);
      if (c.c.violations != before) break;
    }
    c.traces();
  }
}

}  // namespace

const size_t kTrajEll[] = {0, 1, 3};   // three ellipsoids of the catalogue
uint64_t vf_ncases(const std::string& tier) { return ellipsoids().size() * latitudes(tier == "thorough").size() + 18; }

void vf_run(uint64_t idx, const std::string& tier, vf::Ctx& c) {
  bool th = tier == "thorough";
  auto ells = ellipsoids(); auto lats = latitudes(th); auto lons = longitudes(th);
  if (idx >= ells.size() * lats.size()) { size_t k = idx - ells.size() * lats.size(); trajectory(c, kTrajEll[k / 6], k % 6, th); return; }
  const EllCfg& ec = ells[idx % ells.size()];
  double lat = lats[idx / ells.size()];
  EarthEllipsoid lib(ec.a, ec.b);
  ECEFConverter conv(lib);
  georef::Ell E{ec.a, ec.b};
  for (double lon : lons) {
    // forward map from the definition, height 0
    GeodeticCoordinates g0 = makeGeodeticCoordinates(lat, lon, 0.0);
    Eigen::Vector3d P0 = conv.toECEF(g0);
    for (double h : kHeights) {
      std::string params = vf::JO().str("ellipsoid", ec.name).num("a", ec.a).num("b", ec.b).num("lat", lat).num("lon", lon).num("h", h).done();
      c.eval();
      bool special = M_PI - std::fabs(lon) < 1e-2 || std::fabs(lon) < 1e-2 || std::fabs(std::fabs(lon) - M_PI / 2) < 1e-2 || std::fabs(lat) > 1.55;
      if (special) c.nontrivial();
      GeodeticCoordinates g = makeGeodeticCoordinates(lat, lon, h);
      (void)other_converter().toECEF(g);
      const Eigen::Vector3d& Pref = conv.toECEF(g);   // the result is held by reference across the next calls (a by-value result binds a temporary)
      Eigen::Vector3d P = Pref;
      { const Eigen::Vector3d& Q = conv.toECEF(makeGeodeticCoordinates(-lat * 0.5, lon * 0.5, h + 1)); (void)Q; if (!(Pref == P)) c.violation("ECEFConverter.toECEF.resultAliased", params, vf::JO().vec("first_result_now", std::vector<double>{Pref[0], Pref[1], Pref[2]}).vec("first_result_then", std::vector<double>{P[0], P[1], P[2]}).done()); }
      for (int i = 0; i < 3; ++i) c.obs(P[i]);
      // (1) definition: P0 on the ellipsoid, gradient there parallel to n(lat,lon), P - P0 = h n
      long double x = P0[0], y = P0[1], z = P0[2], a = ec.a, b = ec.b;
      long double eq = x * x / (a * a) + y * y / (a * a) + z * z / (b * b) - 1;
      georef::V3 n = georef::normal(lat, lon);
      georef::V3 gr = {x / (a * a), y / (a * a), z / (b * b)};
      long double gn = sqrtl(gr[0] * gr[0] + gr[1] * gr[1] + gr[2] * gr[2]);
      georef::V3 cr = {gr[1] * n[2] - gr[2] * n[1], gr[2] * n[0] - gr[0] * n[2], gr[0] * n[1] - gr[1] * n[0]};
      long double par = sqrtl(cr[0] * cr[0] + cr[1] * cr[1] + cr[2] * cr[2]) / gn;   // sine of the angle between gradient and n
      long double dh = georef::dist({P[0] - P0[0], P[1] - P0[1], P[2] - P0[2]}, {h * n[0], h * n[1], h * n[2]});
      georef::V3 ref = georef::ecef(E, lat, lon, h);
      long double dref = georef::dist({P[0], P[1], P[2]}, ref);
      c.note_max("forward_vs_definition_m", (double)dref);
      if (fabsl(eq) * a / 2 > 1e-6L || par * a > 1e-6L || dh > 1e-6L || dref > 1e-6L)
        c.violation("ECEFConverter.toECEF.vsDefinition", params, vf::JO().num("ellipsoid_eq_residual_m", eq * a / 2).num("normal_misalignment_m", par * a).num("height_offset_err_m", dh).num("vs_reference_m", dref).done());
      // (2) geodetic -> ECEF -> geodetic
      GeodeticCoordinates r = conv.toWGS84(P);
      c.obs(r.latitude); c.obs(r.longitude); c.obs(r.altitude);
      bool finite = std::isfinite(r.latitude) && std::isfinite(r.longitude) && std::isfinite(r.altitude);
      if (!finite || r.latitude < -M_PI / 2 || r.latitude > M_PI / 2 || r.longitude < -M_PI || r.longitude > M_PI)
        c.violation("ECEFConverter.toWGS84.range", params, vf::JO().num("lat", r.latitude).num("lon", r.longitude).num("alt", r.altitude).done());
      else {
        long double elat = fabsl((long double)r.latitude - lat), elon = georef::angdiff(r.longitude, lon), eh = fabsl((long double)r.altitude - h);
        c.note_max("roundtrip_lat_rad", (double)elat); c.note_max("roundtrip_lon_rad", (double)elon); c.note_max("roundtrip_h_m", (double)eh);
        if (elat > 1e-9L || elon > 1e-9L || eh > 1e-3L) c.violation("ECEFConverter.toWGS84(toECEF(g))", params, vf::JO().num("lat_err", elat).num("lon_err", elon).num("h_err", eh).done());
      }
      // (3) Cartesian -> geodetic -> Cartesian on the same point
      check_cartesian(c, conv, E, P, params);
      if (c.want_sample()) c.sample(params);
    }
  }
  // Cartesian points exactly on the antimeridian half-plane (no geodetic input produces Y == +-0 with X < 0 in binary floating point)
  {
    long double rr = ec.a * cosl(lat), zz = ec.b * sinl(lat);
    for (double y : {0.0, -0.0}) for (double s : {1.0, 1.001}) {
      Eigen::Vector3d P(-(double)rr * s, y, (double)zz * s);
      std::string params = vf::JO().str("ellipsoid", ec.name).num("a", ec.a).num("b", ec.b).vec("ecef", std::vector<double>{P[0], P[1], P[2]}).str("note", "exact antimeridian half-plane").done();
      c.nontrivial();
      check_cartesian(c, conv, E, P, params);
    }
  }
}

std::string vf_case_params(uint64_t idx, const std::string& tier) {
  auto ells = ellipsoids(); auto lats = latitudes(tier == "thorough");
  if (idx >= ells.size() * lats.size()) return vf::JO().u("case", idx).str("explorer", "trajectory").u("k", idx - ells.size() * lats.size()).done();
  return vf::JO().u("case", idx).str("ellipsoid", ells[idx % ells.size()].name).num("a", ells[idx % ells.size()].a).num("b", ells[idx % ells.size()].b).num("lat", lats[idx / ells.size()]).done();
}

std::string vf_describe(const std::string& tier) {
  bool th = tier == "thorough";
  vf::JO o;
  o.u("ellipsoids", ellipsoids().size()).u("latitudes", latitudes(th).size()).u("longitudes", longitudes(th).size()).vec("heights_m", std::vector<double>(kHeights, kHeights + 7));
  o.str("trajectories", std::string("one long-lived converter per (3 ellipsoids x 6 start latitudes): consecutive inputs spaced by {1e-12,2.5e-10,1e-9,4e-9,2.5e-8,1.3e-7,6e-7,1e-5,1e-4,1.57e-3} rad (6 um .. 10 km) x {north, east, north-east, up} x {drift, widening back-and-forth} x ") + (th ? "400" : "60") + " steps; every answer must satisfy the point-wise clauses (forward map vs definition 1 um, round trips 1e-9 rad / 1 mm)");
  o.str("coexisting_objects", "a converter on another ellipsoid is handed the bit-identical input right before every call of the converter under test; results are held by reference across the next call");
  o.str("ellipsoid_set", "library GRS80, Clarke 1880 IGN, International 1924, a0*(1+{-1e-3,0,1e-3}) x f in {0 (sphere), 1/600, 1/298.257222101, 1/290}");
  o.str("latitudes_deg", th ? "-89.9..89.9 step 0.1, +-(89..89.9) step 0.01, plus 0, +-1e-9, +-45, +-80, +-85, +-89, +-89.9, 33.3" : "-89.9..89.9 step 5 plus 0, +-1e-9, +-45, +-80, +-85, +-89, +-89.9, 33.3");
  o.str("longitudes_rad", th ? "step 1 deg; +-pi exactly; +-(pi-1e-k) k=3..15; 0, +-pi/2 and their +-1e-k neighbours k=3,6,9,12,15" : "step 15 deg; +-pi exactly; +-(pi-1e-k) k=3..15; 0, +-pi/2 and their +-1e-k neighbours k=3,6,9,12,15");
  o.str("cartesian_extra", "(-r,+0,z) and (-r,-0,z) on the exact antimeridian half-plane, on the surface and 0.1% above");
  o.str("tolerances", "forward map vs definition 1 micrometre; round trips 1e-9 rad (longitude modulo 2 pi) and 1 mm");
  return o.done();
}

VF_MAIN()
