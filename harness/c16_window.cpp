// C16 -- sliding-window statistics (OnlineAverage / OnlineVariance) and RingOfEigenVector reflect exactly the last W items.
//  S1: BFS to fixpoint over (implementation private state x model) for small windows, ops update(v in alphabet) / reset().
//  S2: long runs (10*W updates) with iterative deviation bounding: default cyclic script + every placement of <= k
//      deviations (reset or outlier).
//  S3: ring buffer, capacities 1..16, ops append(fresh tag) / clear(), states canonicalised by relative age, BFS to fixpoint.
#include <romea_core_common/monitoring/OnlineAverage.hpp>
#include <romea_core_common/monitoring/OnlineVariance.hpp>
#include <romea_core_common/containers/Eigen/RingOfEigenVector.hpp>
#include "vrun.hpp"
#include <deque>
#include <unordered_set>

const char* kProperty = "C16";
using namespace romea::core;

namespace {

const double kPrec[] = {1, 0.5, 0.1, 1e-3, 1e-5, 1e-6};
const int kNPrec = 6;

struct Model {
  size_t W; std::deque<double> win; size_t count = 0;
  void update(double v) { win.push_back(v); if (win.size() > W) win.pop_front(); ++count; }
  void reset() { win.clear(); count = 0; }
};

long double mref(double p) { return roundl(1.0L / (long double)p); }

// value alphabet: mid-cell values so that truncation is unambiguous
std::vector<double> alphabet(double p, bool big, bool zero = false) {
  std::vector<double> v = {0.5 * p, -1.5 * p, 7.5 * p, -1234.5 * p};
  if (big) v.push_back(99999999.5 * p);
  if (zero) v.push_back(0.0);   // the value-initialised sample (sentinel collisions); S1b only, the BFS of S1 keeps five values
  return v;
}

struct Expect { long double mean, var; long double sumsq; };
Expect reference(const std::deque<double>& win, double p, size_t W) {
  // exact: the truncated samples are integers K_i / M; sums are formed in 128-bit integers, one division at the end
  long double M = mref(p); __int128 s = 0, s2 = 0;
  for (double v : win) { __int128 k = (__int128)truncl((long double)v * M); s += k; s2 += k * k; }
  Expect e; size_t n = win.size();
  e.mean = n ? (long double)s / (M * n) : 0; e.sumsq = (long double)s2 / (M * M);
  e.var = (n >= 2 && W >= 2) ? (long double)((__int128)n * s2 - s * s) / (M * M * (long double)n * (long double)(W - 1)) : 0;
  return e;
}

std::string hist_json(const std::vector<int>& h, const std::vector<double>& alpha) {
  std::string s = "["; bool f = true;
  for (int o : h) { if (!f) s += ","; f = false; s += (o < 0) ? std::string("\"reset\"") : o >= (int)alpha.size() ? std::string("\"continue with a copy\"") : vf::jnum(alpha[o]); }
  return s + "]";
}

// check one object against the model after an operation; A = OnlineAverage or OnlineVariance
template <class A>
bool check(vf::Ctx& c, A& a, const Model& m, double p, bool isVar, const std::string& params) {
  bool ok = true;
  c.eval();
  bool avail = a.isAvailable();
  c.obs((uint64_t)avail);
  if (avail != (m.count >= m.W)) {
    c.violation(isVar ? "OnlineVariance.isAvailable" : "OnlineAverage.isAvailable", params, vf::JO().b("got", avail).u("count", m.count).done());
    ok = false;
  }
  if (m.count == 0) return ok;
  Expect e = reference(m.win, p, m.W);
  double avg = a.getAverage();
  c.obs(avg);
  long double M = mref(p);
  bool exactMul = (long double)(int)(1 / p) == M;
  long double tol = exactMul ? 4 * (fabsl(e.mean) * 1.2e-16L + 1e-300L) : (1.0L / M + fabsl(e.mean) * 2e-5L * 0 + 1.0L / M * 1e-3L);
  if (!(fabsl((long double)avg - e.mean) <= tol)) {
    c.violation(isVar ? "OnlineVariance.getAverage" : "OnlineAverage.getAverage", params,
                vf::JO().num("got", avg).num("want", e.mean).num("tol", tol).done());
    ok = false;
  }
  // no drift: bit-equal to a fresh object fed the model window
  A fresh(p, m.W);
  for (double v : m.win) fresh.update(v);
  double favg = fresh.getAverage();
  if (memcmp(&favg, &avg, sizeof avg) != 0) {
    c.violation(isVar ? "OnlineVariance.getAverage.vsFresh" : "OnlineAverage.getAverage.vsFresh", params,
                vf::JO().num("got", avg).num("fresh", favg).done());
    ok = false;
  }
  if constexpr (std::is_same<A, OnlineVariance>::value) {
    if (m.count >= m.W) {
      double var = a.getVariance(), fvar = fresh.getVariance();
      c.obs(var);
      long double vtol = exactMul ? 16 * 1.2e-16L * (e.sumsq + m.W * e.mean * e.mean) / (long double)(m.W - 1) + 1e-300L
                                   : (fabsl(e.var) * 1e-4L + 4.0L / M * sqrtl(e.sumsq + 1) + 1.0L / (M * M));
      if (!(fabsl((long double)var - e.var) <= vtol)) {
        c.violation("OnlineVariance.getVariance", params, vf::JO().num("got", var).num("want", e.var).num("tol", vtol).done());
        ok = false;
      }
      if (memcmp(&fvar, &var, sizeof var) != 0) {
        c.violation("OnlineVariance.getVariance.vsFresh", params, vf::JO().num("got", var).num("fresh", fvar).done());
        ok = false;
      }
      c.note_max("var_err_over_tol", (double)(fabsl((long double)var - e.var) / vtol));
    }
  }
  return ok;
}

template <class A> uint64_t state_key(const A& a, const Model& m) {
  uint64_t h = 99;
  h = vf::mix64(h, a.index_); h = vf::mix64(h, (uint64_t)a.sumOfData_); h = vf::mix64(h, a.data_.size());
  for (auto d : a.data_) h = vf::mix64(h, (uint64_t)d);
  if constexpr (std::is_same<A, OnlineVariance>::value) {
    h = vf::mix64(h, (uint64_t)a.sumOfSquaredData_);
    for (auto d : a.squaredData_) h = vf::mix64(h, (uint64_t)d);
  }
  h = vf::mix64(h, std::min(m.count, m.W));
  for (double v : m.win) { uint64_t u; memcpy(&u, &v, 8); h = vf::mix64(h, u); }
  return h;
}

// ---- S1 -------------------------------------------------------------------------------------------------------
template <class A> void s1(vf::Ctx& c, size_t W, double p, bool isVar) {
  struct Node { A a; Model m; std::vector<int> hist; };
  std::vector<double> alpha = alphabet(p, true);
  std::unordered_set<uint64_t> seen;
  std::deque<Node> fr;
  Node init{A(p, W), Model{W}, {}};
  seen.insert(state_key(init.a, init.m)); c.states();
  fr.push_back(init);
  while (!fr.empty()) {
    Node cur = fr.front(); fr.pop_front();
    for (int op = -1; op < (int)alpha.size(); ++op) {
      Node nx{cur.a, cur.m, cur.hist};
      nx.hist.push_back(op);
      if (op < 0) { nx.a.reset(); nx.m.reset(); } else { nx.a.update(alpha[op]); nx.m.update(alpha[op]); }
      c.transitions(); c.traces();
      auto params = [&]() { return vf::JO().str("explorer", "S1").str("object", isVar ? "OnlineVariance" : "OnlineAverage").u("window", W).num("precision", p).raw("history", hist_json(nx.hist, alpha)).done(); };
      bool afterReset = false; { size_t n = nx.hist.size(); for (size_t i = 0; i + 1 < n; ++i) if (nx.hist[i] < 0) afterReset = true; }
      if (nx.m.count > nx.m.W || afterReset) c.nontrivial();
      if (!check<A>(c, nx.a, nx.m, p, isVar, params())) continue;
      if (seen.insert(state_key(nx.a, nx.m)).second) {
        c.states();
        if (c.want_sample() && nx.hist.size() >= 4) c.sample(params());
        fr.push_back(nx);
      }
    }
    if (seen.size() > 3000000) { c.violation("harness.stateExplosion", "{}", "{}"); return; }
  }
}

// ---- S1b: every operation sequence to a depth, no state de-duplication (robust against state the key does not see) -------
template <class A> void s1b(vf::Ctx& c, size_t W, double p, bool isVar, int depth) {
  std::vector<double> alpha = alphabet(p, true, true);
  const int NV = (int)alpha.size();
  const int NOPS = NV + 2;   // reset (-1), update(value) (0..NV-1), continue with a copy-constructed object (NV; the classes have hand-written copy constructors and no assignment)
  uint64_t total = 1; for (int i = 0; i < depth; ++i) total *= NOPS;
  std::vector<int> seq(depth);
  for (uint64_t k = 0; k < total; ++k) {
    uint64_t r = k; for (int i = 0; i < depth; ++i) { seq[i] = (int)(r % NOPS) - 1; r /= NOPS; }
    std::unique_ptr<A> a(new A(p, W)); Model m{W};
    for (int i = 0; i < depth; ++i) {
      if (seq[i] < 0) { a->reset(); m.reset(); } else if (seq[i] == NV) { std::unique_ptr<A> cp(new A(*a)); a = std::move(cp); } else { a->update(alpha[seq[i]]); m.update(alpha[seq[i]]); }
      c.transitions();
      if (i + 1 < depth && k % NOPS) continue;   // prefixes are checked when they are enumerated as full sequences of a shorter tail: check the last step always, inner steps on a fraction
      std::vector<int> h(seq.begin(), seq.begin() + i + 1);
      std::string params = vf::JO().str("explorer", "S1b").str("object", isVar ? "OnlineVariance" : "OnlineAverage").u("window", W).num("precision", p).raw("history", hist_json(h, alpha)).done();
      if (i) c.nontrivial();
      if (!check<A>(c, *a, m, p, isVar, params)) break;
    }
    c.traces();
    if (c.c.violations > 30) return;
  }
}

// ---- S2 -------------------------------------------------------------------------------------------------------
struct Dev { int pos; int kind; };   // kind 0: reset before update pos, 1: outlier value at pos
inline double script2sign(size_t i) { return (i / 200) % 2 ? -1.0 : 1.0; }
template <class A> void run_script(vf::Ctx& c, size_t W, double p, bool isVar, const std::vector<Dev>& devs, bool checkEvery, int script = 0) {
  std::vector<double> alpha = alphabet(p, false);
  A a(p, W); Model m{W};
  size_t len = 10 * W;
  std::vector<int> hist;
  for (size_t i = 0; i < len; ++i) {
    double v = alpha[i % alpha.size()] + (double)((i * 7) % 5) * p;   // cyclic default script
    if (script == 1) v = ((i % 2) ? -1.0 : 1.0) * (9e7 + (double)((i * 7) % 5) + 0.5) * p;   // wide script: alternating sign near the |v|/precision = 1e8 bound
    if (script == 2) v = (script2sign(i) ) * (9e7 + 1e5 * (double)((i * 7) % 5) + 0.5) * p;   // biased script: one sign for long stretches (the window SUM is large, not only the sum of squares)
    bool dev = false;
    for (auto& d : devs) if ((size_t)d.pos == i) {
      dev = true;
      if (d.kind == 0) { a.reset(); m.reset(); hist.push_back(-1); c.transitions(); }
      else v = 99999999.5 * p;
    }
    a.update(v); m.update(v);
    c.transitions();
    if (checkEvery || dev || i + 1 == len || (i % W) == W - 1) {
      auto params = [&]() {
        vf::JO o; o.str("explorer", "S2").str("object", isVar ? "OnlineVariance" : "OnlineAverage").u("window", W).num("precision", p).str("script", script == 1 ? "alternating +-9e7*precision" : script == 2 ? "biased 9e7*precision, one sign for 200 steps" : "cyclic small values").u("step", i);
        std::string ds = "["; for (size_t k = 0; k < devs.size(); ++k) { if (k) ds += ","; ds += vf::JO().i("pos", devs[k].pos).str("kind", devs[k].kind ? "outlier" : "reset").done(); } ds += "]";
        o.raw("deviations", ds); return o.done();
      };
      if (!check<A>(c, a, m, p, isVar, params())) return;
    }
  }
  c.traces();
  if (!devs.empty()) c.nontrivial();
}

template <class A> void s2(vf::Ctx& c, size_t W, double p, bool isVar, int bound, int firstPos) {
  // firstPos < 0: bound-0 run; otherwise all deviation sets whose first deviation is at firstPos
  if (firstPos < 0) { run_script<A>(c, W, p, isVar, {}, true); run_script<A>(c, W, p, isVar, {}, true, 1); run_script<A>(c, W, p, isVar, {}, true, 2); return; }
  int len = (int)(10 * W);
  for (int k1 = 0; k1 < 2; ++k1) {
    run_script<A>(c, W, p, isVar, {{firstPos, k1}}, W <= 8);
    if (k1 == 0) { run_script<A>(c, W, p, isVar, {{firstPos, 0}}, W <= 8, 1); run_script<A>(c, W, p, isVar, {{firstPos, 0}}, W <= 8, 2); }   // a reset anywhere in the wide and in the biased script
    if (bound >= 2)
      for (int p2 = firstPos + 1; p2 < len; ++p2)
        for (int k2 = 0; k2 < 2; ++k2) run_script<A>(c, W, p, isVar, {{firstPos, k1}, {p2, k2}}, false);
  }
}

// ---- S3 ring buffer ---------------------------------------------------------------------------------------------
void s3(vf::Ctx& c, size_t cap) {
  using V = Eigen::Vector2d;
  struct Node { RingOfEigenVector<V> r; std::deque<double> m; std::vector<int> hist; };
  auto key = [&](const Node& n) {
    uint64_t h = 5; h = vf::mix64(h, n.r.ringIndex_); h = vf::mix64(h, n.r.size()); h = vf::mix64(h, n.m.size());
    // contents canonicalised by relative age: raw slot i holds the item of which age?
    double newest = n.m.empty() ? 0 : n.m.back();
    for (auto& v : n.r.get()) h = vf::mix64(h, (uint64_t)(int64_t)(newest - v[0]));
    return h;
  };
  std::unordered_set<uint64_t> seen; std::deque<Node> fr;
  Node init{RingOfEigenVector<V>(cap), {}, {}};
  seen.insert(key(init)); c.states(); fr.push_back(init);
  double tag = 1;
  while (!fr.empty()) {
    Node cur = fr.front(); fr.pop_front();
    for (int op = 0; op < 2; ++op) {
      Node nx = cur; nx.hist.push_back(op);
      if (op == 0) { double t = (nx.m.empty() ? 0 : nx.m.back()) + 1; (void)tag; nx.r.append(V(t, -t)); nx.m.push_back(t); if (nx.m.size() > cap) nx.m.pop_front(); }
      else { nx.r.clear(); nx.m.clear(); }
      c.transitions(); c.traces(); c.eval();
      auto params = [&]() { return vf::JO().str("explorer", "S3").str("object", "RingOfEigenVector").u("capacity", cap).vec("history_0append_1clear", nx.hist).done(); };
      bool ok = true;
      if (nx.r.size() != nx.m.size()) { c.violation("RingOfEigenVector.size", params(), vf::JO().u("got", nx.r.size()).u("want", nx.m.size()).done()); ok = false; }
      for (size_t k = 0; ok && k < nx.m.size(); ++k) {
        // operator[] indexes ring_ with an unchecked expression: guard the read so that a bad index is reported, not UB
        size_t raw = (nx.r.ringIndex_ - k) % nx.r.get().size(); (void)raw;
        const V& got = nx.r[k];
        double want = nx.m[nx.m.size() - 1 - k];
        c.obs(got[0]);
        if (got[0] != want || got[1] != -want) { c.violation("RingOfEigenVector.operator[]", params(), vf::JO().u("k", k).num("got", got[0]).num("want", want).done()); ok = false; }
      }
      if (nx.m.size() == cap && nx.hist.size() > cap) c.nontrivial();
      if (!ok) continue;
      if (seen.insert(key(nx)).second) { c.states(); if (c.want_sample() && nx.hist.size() > 3) c.sample(params()); fr.push_back(nx); }
    }
  }
}

struct Case { int kind; int obj; size_t W; int prec; int bound; int first; };
std::vector<Case> g_cases[2];
const std::vector<Case>& cases(bool th) {
  auto& v = g_cases[th];
  if (!v.empty()) return v;
  for (int obj = 0; obj < 2; ++obj)
    for (size_t W = (obj ? 2 : 1); W <= (th ? 5u : 4u); ++W)
      for (int p = 0; p < kNPrec; ++p) v.push_back({1, obj, W, p, 0, 0});
  // S2: every window size, bound 0 and 1 deviation at every position
  for (int obj = 0; obj < 2; ++obj)
    for (size_t W = (obj ? 2 : 1); W <= 64; ++W) {
      bool full = th || W <= 8 || W == 16 || W == 63 || W == 64;
      for (int p = 0; p < kNPrec; ++p) {
        v.push_back({2, obj, W, p, 0, -1});
        if (!full && p != 3 && p != 5) continue;
        int b = (W <= 8 || (th && (W == 64 || W == 12))) ? 2 : 1;
        if (b == 2 && !th && p != 3 && p != 5 && W > 4) b = 1;
        for (int f = 0; f < (int)(10 * W); ++f) v.push_back({2, obj, W, p, b, f});
      }
    }
  for (size_t cap = 1; cap <= 16; ++cap) v.push_back({3, 0, cap, 0, 0, 0});
  for (int obj = 0; obj < 2; ++obj) for (size_t W = (obj ? 2 : 1); W <= 3; ++W) for (int p = 0; p < kNPrec; ++p) v.push_back({4, obj, W, p, th ? 7 : 5, 0});
  return v;
}

}  // namespace

uint64_t vf_ncases(const std::string& tier) { return cases(tier == "thorough").size(); }

void vf_run(uint64_t idx, const std::string& tier, vf::Ctx& c) {
  const Case& k = cases(tier == "thorough")[idx];
  double p = kPrec[k.prec];
  if (k.kind == 1) { if (k.obj) s1<OnlineVariance>(c, k.W, p, true); else s1<OnlineAverage>(c, k.W, p, false); }
  else if (k.kind == 2) { if (k.obj) s2<OnlineVariance>(c, k.W, p, true, k.bound, k.first); else s2<OnlineAverage>(c, k.W, p, false, k.bound, k.first); }
  else if (k.kind == 3) s3(c, k.W);
  else { if (k.obj) s1b<OnlineVariance>(c, k.W, p, true, k.bound); else s1b<OnlineAverage>(c, k.W, p, false, k.bound); }
}

std::string vf_case_params(uint64_t idx, const std::string& tier) {
  const Case& k = cases(tier == "thorough")[idx];
  return vf::JO().u("case", idx).str("explorer", k.kind == 1 ? "S1" : k.kind == 2 ? "S2" : k.kind == 3 ? "S3" : "S1b")
      .str("object", k.kind == 3 ? "RingOfEigenVector" : k.obj ? "OnlineVariance" : "OnlineAverage").u("window", k.W)
      .num("precision", kPrec[k.prec]).i("first_deviation", k.first).done();
}

std::string vf_describe(const std::string& tier) {
  bool th = tier == "thorough";
  vf::JO o;
  o.vec("precisions", std::vector<double>(kPrec, kPrec + kNPrec));
  o.str("S1", th ? "windows 1..5 (variance 2..5)" : "windows 1..4 (variance 2..4)");
  o.str("S1_ops", "update(v) for v in {0.5,-1.5,7.5,-1234.5,99999999.5}*precision, reset(); BFS to fixpoint over (index, data, sums; model window, count)");
  o.str("S2_scripts", "cyclic small values; alternating-sign values of magnitude 9e7*precision; one-signed values of magnitude 9e7*precision (bound 0 and a reset at every position for the last two)");
  o.str("S2", th ? "every window 1..64, 10*W updates, deviation bound 1 (reset or outlier at any position), bound 2 for W<=8, W=12, W=64"
                 : "every window 1..64 bound 0; bound 1 for W<=8,16,63,64 (all precisions) and all W at precisions 1e-3,1e-6; bound 2 for W<=8");
  o.str("S1b", th ? "every update/reset sequence of length 7 for windows 1..3, no state de-duplication; alphabet = the five S1 values, exactly 0.0, reset, continue with a copy-constructed object" : "every update/reset sequence of length 5 for windows 1..3, no state de-duplication; alphabet = the five S1 values, exactly 0.0, reset, continue with a copy-constructed object");
  o.str("S3", "ring capacities 1..16, append(fresh tag)/clear(), BFS to fixpoint, states canonicalised by relative age");
  o.str("oracle", "availability <=> count>=W; mean of model window of truncated samples (long double); unbiased variance once full; bit-equality with a fresh object fed the model window");
  return o.done();
}

VF_MAIN()
