// C05 -- point-to-plane least-squares registration solves its linearised problem.
#include <romea_core_common/transform/estimation/FindRigidTransformationByLeastSquares.hpp>
#include "vrun.hpp"
#include "regref.hpp"

const char* kProperty = "C05";
using namespace romea::core;
using regref::LD; using regref::V3; using regref::M3;
using LM = Eigen::Matrix<LD, Eigen::Dynamic, Eigen::Dynamic>; using LV = Eigen::Matrix<LD, Eigen::Dynamic, 1>;

namespace {

struct Scene { std::string name; std::vector<V3> pts, nrm; };   // target points with unit normals

std::vector<Scene> scenes(int dim) {
  std::vector<Scene> v;
  if (dim == 2) {
    { Scene s; s.name = "square outline 6 points"; s.pts = {V3(-1, -1, 0), V3(1, -1.0, 0), V3(1, 0.5, 0), V3(0.2, 1, 0), V3(-1, 0.3, 0), V3(-0.4, -1, 0)}; s.nrm = {V3(0, -1, 0), V3(1, 0, 0), V3(1, 0, 0), V3(0, 1, 0), V3(-1, 0, 0), V3(0, -1, 0)}; v.push_back(s); }
    { Scene s; s.name = "square outline 40 points"; for (int i = 0; i < 10; ++i) { double a = -1 + 0.2 * i + 0.03; s.pts.push_back(V3(a, -1, 0)); s.nrm.push_back(V3(0, -1, 0)); s.pts.push_back(V3(1, a, 0)); s.nrm.push_back(V3(1, 0, 0)); s.pts.push_back(V3(a, 1, 0)); s.nrm.push_back(V3(0, 1, 0)); s.pts.push_back(V3(-1, a, 0)); s.nrm.push_back(V3(-1, 0, 0)); } v.push_back(s); }
    { Scene s; s.name = "circle 12 points radius 3 about (5,1)"; for (int i = 0; i < 12; ++i) { LD a = 0.5235987755982988L * i + 0.1L; s.pts.push_back(V3(5 + 3 * cosl(a), 1 + 3 * sinl(a), 0)); s.nrm.push_back(V3(cosl(a), sinl(a), 0)); } v.push_back(s); }
    { Scene s; s.name = "corridor + end wall 500 points over 20 m"; for (int i = 0; i < 500; ++i) { auto h = regref::pattern(i); if (i % 5 == 0) { s.pts.push_back(V3(10, 2 * h[1], 0)); s.nrm.push_back(V3(-1, 0, 0)); } else if (i % 2) { s.pts.push_back(V3(10 * h[0], 2, 0)); s.nrm.push_back(V3(0, -1, 0)); } else { s.pts.push_back(V3(10 * h[0], -2, 0)); s.nrm.push_back(V3(0, 1, 0)); } } v.push_back(s); }
    { Scene s; s.name = "corridor + end wall 500 points over 12 m, centred 17 m from the origin"; for (int i = 0; i < 500; ++i) { auto h = regref::pattern(i); V3 q; V3 n; if (i % 5 == 0) { q = V3(6, 2 * h[1], 0); n = V3(-1, 0, 0); } else if (i % 2) { q = V3(6 * h[0], 2, 0); n = V3(0, -1, 0); } else { q = V3(6 * h[0], -2, 0); n = V3(0, 1, 0); } s.pts.push_back(q + V3(12, -12, 0)); s.nrm.push_back(n); } v.push_back(s); }
    { Scene s; s.name = "500 points, normals within +-0.008 rad of the diagonal (nearly collinear normal field)"; for (int i = 0; i < 500; ++i) { auto h = regref::pattern(i + 9); LD a = 0.7853981633974483L + 0.008L * h[2]; s.pts.push_back(V3(2 * h[0], 2 * h[1], 0)); s.nrm.push_back(V3(cosl(a), sinl(a), 0)); } v.push_back(s); }
    { Scene s; s.name = "mixed normal field 30 points"; for (int i = 0; i < 30; ++i) { auto h = regref::pattern(i + 3); LD a = 2.1L * i; s.pts.push_back(V3(4 * h[0], 3 * h[1], 0)); s.nrm.push_back(V3(cosl(a), sinl(a), 0)); } v.push_back(s); }
  } else {
    { Scene s; s.name = "box faces 6 points"; s.pts = {V3(1, 0.2, 0.1), V3(-1, -0.3, 0.4), V3(0.3, 1, -0.2), V3(-0.2, -1, 0.5), V3(0.1, 0.4, 1), V3(0.5, -0.6, -1)}; s.nrm = {V3(1, 0, 0), V3(-1, 0, 0), V3(0, 1, 0), V3(0, -1, 0), V3(0, 0, 1), V3(0, 0, -1)}; v.push_back(s); }
    { Scene s; s.name = "box faces 96 points"; for (int i = 0; i < 4; ++i) for (int j = 0; j < 4; ++j) { double a = -0.75 + 0.5 * i + 0.02 * j, b = -0.75 + 0.5 * j - 0.03 * i; s.pts.push_back(V3(1, a, b)); s.nrm.push_back(V3(1, 0, 0)); s.pts.push_back(V3(-1, a, b)); s.nrm.push_back(V3(-1, 0, 0)); s.pts.push_back(V3(a, 1, b)); s.nrm.push_back(V3(0, 1, 0)); s.pts.push_back(V3(a, -1, b)); s.nrm.push_back(V3(0, -1, 0)); s.pts.push_back(V3(a, b, 1)); s.nrm.push_back(V3(0, 0, 1)); s.pts.push_back(V3(a, b, -1)); s.nrm.push_back(V3(0, 0, -1)); } v.push_back(s); }
    { Scene s; s.name = "sphere 50 points radius 2 about (1,-3,4)"; for (int i = 0; i < 50; ++i) { auto h = regref::pattern(i + 11); V3 d(h[0], h[1], h[2]); d.normalize(); s.pts.push_back(V3(1, -3, 4) + 2 * d); s.nrm.push_back(d); } v.push_back(s); }
    { Scene s; s.name = "room 500 points over 20 m"; for (int i = 0; i < 500; ++i) { auto h = regref::pattern(i + 1); int f = i % 6; V3 p(10 * h[0], 10 * h[1], 3 * h[2]), n(0, 0, 0); if (f == 0) { p[0] = 10; n[0] = -1; } else if (f == 1) { p[0] = -10; n[0] = 1; } else if (f == 2) { p[1] = 10; n[1] = -1; } else if (f == 3) { p[1] = -10; n[1] = 1; } else if (f == 4) { p[2] = 3; n[2] = -1; } else { p[2] = -3; n[2] = 1; } s.pts.push_back(p); s.nrm.push_back(n); } v.push_back(s); }
    { Scene s; s.name = "room 500 points over 12 m, centred 17 m from the origin"; for (int i = 0; i < 500; ++i) { auto h = regref::pattern(i + 1); int f = i % 6; V3 p(6 * h[0], 6 * h[1], 2 * h[2]), n(0, 0, 0); if (f == 0) { p[0] = 6; n[0] = -1; } else if (f == 1) { p[0] = -6; n[0] = 1; } else if (f == 2) { p[1] = 6; n[1] = -1; } else if (f == 3) { p[1] = -6; n[1] = 1; } else if (f == 4) { p[2] = 2; n[2] = -1; } else { p[2] = -2; n[2] = 1; } s.pts.push_back(p + V3(12, -11, 5)); s.nrm.push_back(n); } v.push_back(s); }
    { Scene s; s.name = "mixed normal field 40 points"; for (int i = 0; i < 40; ++i) { auto h = regref::pattern(i + 5), g = regref::pattern(i + 77); V3 d(g[0], g[1], g[2] + 0.01); d.normalize(); s.pts.push_back(V3(3 * h[0], 3 * h[1], 2 * h[2])); s.nrm.push_back(d); } v.push_back(s); }
  }
  return v;
}

template <class PT> PT mkp(const V3& a, bool normal = false) { PT p = PT::Zero(); for (int i = 0; i < PointTraits<PT>::DIM; ++i) p[i] = (typename PT::Scalar)a[i]; if (PointTraits<PT>::SIZE > PointTraits<PT>::DIM) p[PointTraits<PT>::SIZE - 1] = normal ? 0 : 1; return p; }

template <class PT> LV params_of(const Eigen::Matrix<typename PT::Scalar, PointTraits<PT>::DIM + 1, PointTraits<PT>::DIM + 1>& H, bool& shapeOk) {
  constexpr int DIM = PointTraits<PT>::DIM; shapeOk = true;
  for (int i = 0; i <= DIM; ++i) if (H(i, i) != 1) shapeOk = false;
  for (int j = 0; j < DIM; ++j) if (H(DIM, j) != 0) shapeOk = false;
  for (int i = 0; i < DIM; ++i) for (int j = i + 1; j < DIM; ++j) if (H(i, j) != -H(j, i)) shapeOk = false;
  if (DIM == 2) { LV x(3); x << (LD)H(0, 2), (LD)H(1, 2), (LD)H(1, 0); return x; }
  LV x(6); x << (LD)H(0, 3), (LD)H(1, 3), (LD)H(2, 3), (LD)H(2, 1), (LD)H(0, 2), (LD)H(1, 0); return x;
}

template <class PT> void run_scene(vf::Ctx& c, const char* tname, const Scene& sc, bool th) {
  using S = typename PT::Scalar; constexpr int DIM = PointTraits<PT>::DIM; constexpr int P = DIM == 2 ? 3 : 6;
  using H = Eigen::Matrix<S, DIM + 1, DIM + 1>;
  LD eps = std::numeric_limits<S>::epsilon();
  size_t n = sc.pts.size();
  LD extent = 0; for (auto& p : sc.pts) extent = std::max(extent, p.norm());
  std::vector<V3> axes = DIM == 2 ? std::vector<V3>{V3(0, 0, 1)} : std::vector<V3>{V3(0, 0, 1), V3(1, 0, 0), V3(1, -1, 1).normalized()};
  std::vector<V3> trans = {V3(0, 0, 0), V3(0.05, -0.02, DIM == 3 ? 0.03 : 0), V3(0.4 * extent, -0.3 * extent, DIM == 3 ? 0.2 * extent : 0)};
  auto aa = [](LD a, V3 ax) { M3 K; K << 0, -ax[2], ax[1], ax[2], 0, -ax[0], -ax[1], ax[0], 0; return (M3::Identity() + sinl(a) * K + (1 - cosl(a)) * K * K).eval(); };
  FindRigidTransformationByLeastSquares<PT> reused;   // one estimator object solves every problem of this scene in turn (plain overloads)
  if (th) { if (DIM == 3) { axes.push_back(V3(0, 1, 0)); axes.push_back(V3(1, 1, 0).normalized()); axes.push_back(V3(-2, 1, 3).normalized()); } trans.push_back(V3(-extent, 0.5L * extent, DIM == 3 ? -0.7L * extent : 0)); trans.push_back(V3(1e-6L, -1e-6L, 0)); }
  std::vector<LD> thetas = th ? std::vector<LD>{0.0L, 1e-6L, -1e-4L, 1e-4L, 1e-3L, 1e-2L, -0.03L, 0.05L, 0.1L} : std::vector<LD>{0.0L, 1e-4L, 1e-2L, 0.1L};
  for (auto& ax : axes) for (LD theta : thetas) for (auto& tr : trans) for (int noise = 0; noise < 2; ++noise) {
    if (theta == 0 && &ax != &axes[0]) continue;
    M3 R = aa(theta, ax);
    // source = motion^-1 (target) (+ deterministic perturbation): the exact motion source -> target is (R, tr)
    PointSet<PT> src, tgt; NormalSet<PT> nrm;
    for (size_t i = 0; i < n; ++i) { V3 q = sc.pts[i]; V3 p = R.transpose() * (q - tr); if (noise) { auto h = regref::pattern((unsigned)(i + 13)); p += 0.01L * V3(h[0], h[1], DIM == 3 ? h[2] : 0); } src.push_back(mkp<PT>(p)); tgt.push_back(mkp<PT>(q)); nrm.push_back(mkp<PT>(sc.nrm[i], true)); }
    for (int cm = 0; cm < 5; ++cm) {
      // 0: identity correspondences; 1: subset (every other, reversed order); 2: target (and normals) stored permuted;
      // 3: many-to-one - every source point is matched to two target points (more correspondences than source points)
      std::vector<Correspondence> cor; PointSet<PT> tgtU = tgt; NormalSet<PT> nrmU = nrm;
      if (cm == 0) for (size_t i = 0; i < n; ++i) cor.emplace_back(i, i);
      else if (cm == 1) { for (size_t i = n; i-- > 0;) if (i % 2 == 0 || n <= 12) cor.emplace_back(i, i); }
      else if (cm == 2) { size_t m = 0; for (size_t k = 1; k < n; ++k) if (std::__gcd(k, n) == 1 && k > n / 3) { m = k; break; } if (!m) continue; for (size_t i = 0; i < n; ++i) { size_t j = (i * m + 1) % n; tgtU[j] = tgt[i]; nrmU[j] = nrm[i]; cor.emplace_back(i, j); } }
      else if (cm == 4) {   // the target (and normals) stored with neighbours swapped two by two, except the first, the middle and the last entry which stay at their own index
        if (n < 8) continue; std::vector<size_t> to(n); for (size_t i = 0; i < n; ++i) to[i] = i;
        for (size_t i = 1; i + 2 < n; i += 2) { if (i == n / 2 || i + 1 == n / 2) continue; std::swap(to[i], to[i + 1]); }
        for (size_t i = 0; i < n; ++i) { tgtU[to[i]] = tgt[i]; nrmU[to[i]] = nrm[i]; cor.emplace_back(i, to[i]); } }
      else { for (size_t i = 0; i < n; ++i) { auto h = regref::pattern((unsigned)(i + 401)); PT q = tgt[i]; for (int d = 0; d < DIM; ++d) q[d] += (S)(0.004 * h[d]); tgtU.push_back(q); nrmU.push_back(nrm[i]); } for (size_t i = 0; i < n; ++i) { cor.emplace_back(i, i); cor.emplace_back(i, n + i); } }
      if ((int)cor.size() < P) continue;
      // J, Y from the definition, in long double, on the data as stored in S
      auto build = [&](LD scale, LM& J, LV& Y) {
        J.resize(cor.size(), P); Y.resize(cor.size());
        for (size_t r = 0; r < cor.size(); ++r) {
          V3 s = V3::Zero(), t = V3::Zero(), nn = V3::Zero();
          for (int d = 0; d < DIM; ++d) { s[d] = (LD)src[cor[r].sourcePointIndex][d] * scale; t[d] = (LD)tgtU[cor[r].targetPointIndex][d] * scale; nn[d] = nrmU[cor[r].targetPointIndex][d]; }
          V3 cr = s.cross(nn);
          if (DIM == 2) { J(r, 0) = nn[0]; J(r, 1) = nn[1]; J(r, 2) = cr[2]; } else { for (int d = 0; d < 3; ++d) { J(r, d) = nn[d]; J(r, 3 + d) = cr[d]; } }
          Y(r) = (t - s).dot(nn);
        }
      };
      LM J; LV Y; build(1, J, Y);
      Eigen::JacobiSVD<LM> svd(J); LD smax = svd.singularValues()(0), kap = smax / svd.singularValues()(P - 1);
      std::string params = vf::JO().str("type", tname).str("scene", sc.name).u("points", n).num("theta", theta).vec("axis", std::vector<LD>{ax[0], ax[1], ax[2]}).vec("translation", std::vector<LD>{tr[0], tr[1], tr[2]}).b("perturbed", noise).i("correspondence_mode", cm).num("kappa_J", kap).done();
      if (!(kap * kap < 1e6L)) { c.trivial(); continue; }   // quantifier: condition number of the normal matrix below 1e6
      LV xref = J.householderQr().solve(Y);
      LD tol = 4 * P * eps * kap * kap * (xref.norm() + Y.norm() / smax) + 16 * eps * (1 + extent + tr.norm());
      if (4 * P * eps * kap * kap > 0.25L) { c.trivial(); continue; }   // the forward-error bound exceeds a quarter of the solution: no digits in this scalar type
      LV firstX; bool haveFirst = false;
      for (int ov = 0; ov < 5; ++ov) {
        // 0 index-based fresh, 1 index-based on the reused estimator, 2 aligned (identity correspondences only), 3/4 preconditioned scale 1e-3 / 1e3 with setPreconditioner
        if (ov == 2 && cm != 0) continue;
        H got; LD tolUse = tol;
        if (ov == 0) { FindRigidTransformationByLeastSquares<PT> est; got = est.find(src, tgtU, nrmU, cor); }
        else if (ov == 1) got = reused.find(src, tgtU, nrmU, cor);
        else if (ov == 2) { FindRigidTransformationByLeastSquares<PT> est; got = est.find(src, tgtU, nrmU); }
        else {
          S scale = ov == 3 ? (S)1e-3 : (S)1e3;
          LM Js; LV Ys; build((LD)scale, Js, Ys);
          Eigen::JacobiSVD<LM> sv2(Js); LD k2 = sv2.singularValues()(0) / sv2.singularValues()(P - 1);
          if (4 * P * eps * k2 * k2 > 0.25L) { c.trivial(); continue; }   // the scaled system carries no digits in this precision
          LV xs = Js.householderQr().solve(Ys);
          tolUse = tol + (64 * P * eps * k2 * k2 * (xs.norm() + Ys.norm() / sv2.singularValues()(0))) / std::min<LD>(1, (LD)scale) * 1;
          PreconditionedPointSet<PT> ps(src, scale), pt(tgtU, scale);
          FindRigidTransformationByLeastSquares<PT> est; est.setPreconditioner(ps, pt);
          got = (cm == 0 && ov == 4) ? est.find(ps, pt, nrmU) : est.find(ps, pt, nrmU, cor);
          // translation error of the scaled problem maps back through 1/scale, rotation is unchanged
          LD tt = 64 * P * eps * k2 * k2 * (xs.norm() + Ys.norm() / sv2.singularValues()(0));
          tolUse = tol + tt / (LD)scale + tt;
        }
        c.eval(); if (theta != 0 || noise || cm || ov) c.nontrivial();
        for (int i = 0; i < (DIM + 1) * (DIM + 1); ++i) c.obs((double)got(i / (DIM + 1), i % (DIM + 1)));
        std::string p2 = vf::JO().str("type", tname).str("scene", sc.name).u("points", n).num("theta", theta).vec("axis", std::vector<LD>{ax[0], ax[1], ax[2]}).vec("translation", std::vector<LD>{tr[0], tr[1], tr[2]}).b("perturbed", noise).i("correspondence_mode", cm).i("overload", ov).num("kappa_J", kap).done();
        bool shape; LV x = params_of<PT>(got, shape);
        if (!shape) { c.violation("FindRigidTransformationByLeastSquares.find.notIdentityPlusSkewPlusTranslation", p2, "{}"); continue; }
        LD err = x.allFinite() ? (x - xref).norm() : HUGE_VALL;
        c.note_max(std::string("param_err_over_tol_") + tname, (double)(err / tolUse));
        if (!(err <= tolUse)) { c.violation("FindRigidTransformationByLeastSquares.find.notLeastSquaresSolution", p2, vf::JO().num("param_err", err).num("tol", tolUse).vec("got", std::vector<LD>(x.data(), x.data() + P)).vec("reference", std::vector<LD>(xref.data(), xref.data() + P)).done()); continue; }
        LV res = J.transpose() * (J * x - Y);
        LD tolr = smax * smax * tolUse * 2 + 64 * P * eps * kap * kap * smax * Y.norm();
        if (!(res.norm() <= tolr)) c.violation("FindRigidTransformationByLeastSquares.find.normalEquationResidual", p2, vf::JO().num("residual", res.norm()).num("tol", tolr).done());
        if (!haveFirst) { firstX = x; haveFirst = true; }
        else if ((x - firstX).norm() > 2 * tolUse) c.violation("FindRigidTransformationByLeastSquares.find.overloadsDisagree", p2, vf::JO().num("difference", (x - firstX).norm()).done());
        if (!noise && cm != 3) {   // (the duplicated targets of mode 3 are perturbed: no exact-data consequences there)
          // consequences: pure translation exact; rotation of angle theta recovered with O(theta^2) error
          LV xt(P); xt.setZero(); for (int d = 0; d < DIM; ++d) xt[d] = tr[d]; if (DIM == 2) xt[2] = theta; else for (int d = 0; d < 3; ++d) xt[3 + d] = theta * ax[d];
          // the translation paired with the rotation vector about the origin: target = R source + tr
          LD bound = 2 * kap * fabsl(theta) * fabsl(theta) * (extent + tr.norm() + 1) * sqrtl((LD)P) + tolUse;
          if (!((x - xt).norm() <= bound)) c.violation(theta == 0 ? "FindRigidTransformationByLeastSquares.find.pureTranslationNotExact" : "FindRigidTransformationByLeastSquares.find.smallRotationError", p2, vf::JO().num("err", (x - xt).norm()).num("bound", bound).done());
        }
      }
      if (c.want_sample()) c.sample(params);
    }
  }
}


// ---- S: every sequence of find / setPreconditioner+find calls on ONE estimator, each answer vs a fresh estimator ------------
// op = size {full, half} x form {index-based, aligned} x preconditioning {none, scale 1, 0.05, 40 through setPreconditioner}
template <class PT> void run_sequences(vf::Ctx& c, const char* tname, const Scene& sc, int depth, int firstOp) {
  using S = typename PT::Scalar; constexpr int DIM = PointTraits<PT>::DIM; constexpr int P = DIM == 2 ? 3 : 6;
  using H = Eigen::Matrix<S, DIM + 1, DIM + 1>;
  LD eps = std::numeric_limits<S>::epsilon();
  size_t n = sc.pts.size();
  V3 ax = DIM == 2 ? V3(0, 0, 1) : V3(1, -1, 1).normalized(); LD theta = 0.09L; V3 tr(0.05L, -0.02L, DIM == 3 ? 0.03L : 0);
  M3 K; K << 0, -ax[2], ax[1], ax[2], 0, -ax[0], -ax[1], ax[0], 0; M3 R = M3::Identity() + sinl(theta) * K + (1 - cosl(theta)) * K * K;
  PointSet<PT> src[2], tgt[2]; NormalSet<PT> nrm[2]; std::vector<Correspondence> cor[2];
  for (size_t i = 0; i < n; ++i) {
    V3 q = sc.pts[i]; V3 p = R.transpose() * (q - tr); auto h = regref::pattern((unsigned)(i + 13)); p += 0.01L * V3(h[0], h[1], DIM == 3 ? h[2] : 0);
    src[0].push_back(mkp<PT>(p)); tgt[0].push_back(mkp<PT>(q)); nrm[0].push_back(mkp<PT>(sc.nrm[i], true));
    if (i % 2 == 0) { src[1].push_back(mkp<PT>(p)); tgt[1].push_back(mkp<PT>(q)); nrm[1].push_back(mkp<PT>(sc.nrm[i], true)); }
  }
  for (size_t i = n; i-- > 0;) { cor[0].emplace_back(i, i); if (i % 2 == 0) cor[1].emplace_back(i, i); }   // index-based on the FULL sets; half = every other point
  const S scales[4] = {(S)1, (S)1, (S)0.05, (S)40};   // index 0: no setPreconditioner call at all
  const int NOPS = 16;
  auto opname = [&](int op) { int size = op & 1, form = (op >> 1) & 1, pre = op >> 2; char b[96]; snprintf(b, 96, "%s%s %s points", pre == 0 ? "find (sets scaled as configured) " : pre == 1 ? "setPreconditioner(1)+find " : pre == 2 ? "setPreconditioner(0.05)+find " : "setPreconditioner(40)+find ", form ? "aligned" : "index-based", size ? "half" : "all"); return std::string(b); };
  // configured = preconditioner state of the estimator according to the model (0 none, 1..3 = scales[.]); an operation with pre == 0 keeps it
  // and hands over the point sets scaled accordingly, pre >= 1 calls setPreconditioner first
  auto run_op = [&](FindRigidTransformationByLeastSquares<PT>& est, int op, int configured) -> H {
    int size = op & 1, form = (op >> 1) & 1, pre = op >> 2;
    int eff = pre ? pre : configured;
    if (eff == 0) return form ? est.find(src[size], tgt[size], nrm[size]) : est.find(src[0], tgt[0], nrm[0], cor[size]);
    S sc = scales[eff];
    if (form) { PreconditionedPointSet<PT> ps(src[size], sc), pt(tgt[size], sc); if (pre) est.setPreconditioner(ps, pt); return est.find(ps, pt, nrm[size]); }
    PreconditionedPointSet<PT> ps(src[0], sc), pt(tgt[0], sc); if (pre) est.setPreconditioner(ps, pt); return est.find(ps, pt, nrm[0], cor[size]);
  };
  // per-op tolerance from the forward-error bound of the (scaled) problem; fresh answers
  LD tolOp[NOPS]; LV xFresh[NOPS]; bool usable[NOPS];
  for (int op = 0; op < NOPS; ++op) {
    int size = op & 1, pre = op >> 2; LD scale = (LD)scales[pre];
    const auto& cc = cor[size];
    LM J(cc.size(), P); LV Y(cc.size());
    for (size_t r = 0; r < cc.size(); ++r) {
      V3 sP = V3::Zero(), tP = V3::Zero(), nn = V3::Zero();
      for (int d = 0; d < DIM; ++d) { sP[d] = (LD)src[0][cc[r].sourcePointIndex][d] * scale; tP[d] = (LD)tgt[0][cc[r].targetPointIndex][d] * scale; nn[d] = nrm[0][cc[r].targetPointIndex][d]; }
      V3 cr = sP.cross(nn);
      if (DIM == 2) { J(r, 0) = nn[0]; J(r, 1) = nn[1]; J(r, 2) = cr[2]; } else { for (int d = 0; d < 3; ++d) { J(r, d) = nn[d]; J(r, 3 + d) = cr[d]; } }
      Y(r) = (tP - sP).dot(nn);
    }
    Eigen::JacobiSVD<LM> svd(J); LD smax = svd.singularValues()(0), kap = smax / svd.singularValues()(P - 1);
    usable[op] = 4 * P * eps * kap * kap <= 0.25L;
    LV xs = J.householderQr().solve(Y);
    LD tt = 8 * P * eps * kap * kap * (xs.norm() + Y.norm() / smax) + 16 * eps * (1 + tr.norm());
    tolOp[op] = tt / std::min<LD>(1, scale) + tt;
    FindRigidTransformationByLeastSquares<PT> fresh; bool shape; xFresh[op] = params_of<PT>(run_op(fresh, op, 0), shape);
    LV want = xs; for (int d = 0; d < DIM; ++d) want[d] /= scale;   // translation of the scaled problem maps back through 1/scale
    c.eval();
    if (usable[op] && (!shape || !((xFresh[op] - want).norm() <= tolOp[op])))
      c.violation("FindRigidTransformationByLeastSquares.find.notLeastSquaresSolution", vf::JO().str("type", tname).str("scene", sc.name).str("explorer", "S").str("op", opname(op)).done(), vf::JO().num("param_err", (xFresh[op] - want).norm()).num("tol", tolOp[op]).done());
  }
  const int NALL = NOPS + 2;   // + "assign the estimator to another, long-lived one and continue with that one", "continue with a copy-constructed estimator"
  auto opname2 = [&](int op) { return op < NOPS ? opname(op) : op == NOPS ? std::string("other = estimator; continue with other") : std::string("continue with a copy-constructed estimator"); };
  // firstOp < 0: long run - a fixed script of 30 calls cycling through the 16 find operations, and every variant with ONE position replaced by any operation
  const bool longRun = firstOp < 0; if (longRun) depth = 30;
  uint64_t total = 1; if (longRun) total = (uint64_t)depth * NALL + 1; else for (int i = 1; i < depth; ++i) total *= NALL;
  std::vector<int> seq(depth), base(depth); if (!longRun) seq[0] = firstOp;
  for (int i = 0; i < depth; ++i) base[i] = (i * 7 + 3) % NOPS;
  using Est = FindRigidTransformationByLeastSquares<PT>;
  for (uint64_t k = 0; k < total; ++k) {
    if (longRun) { seq = base; if (k) seq[(k - 1) / NALL] = (int)((k - 1) % NALL); }
    else { uint64_t r = k; for (int i = 1; i < depth; ++i) { seq[i] = r % NALL; r /= NALL; } }
    std::unique_ptr<Est> cur(new Est), other(new Est); int modelPre = 0;
    { PreconditionedPointSet<PT> ps(src[1], scales[3]), pt(tgt[1], scales[3]); other->setPreconditioner(ps, pt); other->find(ps, pt, nrm[1]); }   // the other estimator has a past of its own
    for (int i = 0; i < depth; ++i) {
      int op = seq[i];
      c.transitions();
      if (op == NOPS) { *other = *cur; std::swap(cur, other); continue; }
      if (op == NOPS + 1) { std::unique_ptr<Est> cp(new Est(*cur)); other = std::move(cur); cur = std::move(cp); continue; }
      int pre = op >> 2;
      if (pre) modelPre = pre;
      int xop = (op & 3) | (modelPre << 2);   // the operation whose fresh answer applies: same size / form, the configured scale
      if (!usable[xop]) break;
      c.eval(); if (i) c.nontrivial();
      bool shape; LV x = params_of<PT>(run_op(*cur, op, modelPre), shape);
      for (int j = 0; j < P; ++j) c.obs((double)x[j]);
      LD err = x.allFinite() ? (x - xFresh[xop]).norm() : HUGE_VALL;
      c.note_max(std::string("sequence_err_over_tol_") + tname, (double)(err / (2 * tolOp[xop])));
      if (!shape || !(err <= 2 * tolOp[xop])) {
        std::vector<std::string> h; for (int j = 0; j <= i; ++j) h.push_back(opname2(seq[j]));
        c.violation("FindRigidTransformationByLeastSquares.find.dependsOnHistory", vf::JO().str("type", tname).str("scene", sc.name).str("explorer", "S").strs("history", h).done(),
                    vf::JO().num("difference_from_fresh_estimator", err).num("tol", 2 * tolOp[xop]).vec("got", std::vector<LD>(x.data(), x.data() + P)).vec("fresh", std::vector<LD>(xFresh[xop].data(), xFresh[xop].data() + P)).done());
        break;
      }
    }
    c.traces();
    if (c.c.violations > 30) return;
  }
}

// ---- every correspondence count from P to 500 (the statement quantifies over all of them) ----------------------------------------
template <class PT> void all_sizes(vf::Ctx& c, const char* tname, const Scene& sc) {
  using S = typename PT::Scalar; constexpr int DIM = PointTraits<PT>::DIM; constexpr int P = DIM == 2 ? 3 : 6;
  using H = Eigen::Matrix<S, DIM + 1, DIM + 1>;
  LD eps = std::numeric_limits<S>::epsilon();
  size_t N = sc.pts.size();
  V3 ax = DIM == 2 ? V3(0, 0, 1) : V3(1, -1, 1).normalized(); LD theta = 0.02L; V3 tr(0.05L, -0.02L, DIM == 3 ? 0.03L : 0);
  M3 K; K << 0, -ax[2], ax[1], ax[2], 0, -ax[0], -ax[1], ax[0], 0; M3 R = M3::Identity() + sinl(theta) * K + (1 - cosl(theta)) * K * K;
  PointSet<PT> srcAll, tgtAll; NormalSet<PT> nrmAll;
  for (size_t i = 0; i < N; ++i) { V3 q = sc.pts[i]; V3 p = R.transpose() * (q - tr); auto h = regref::pattern((unsigned)(i + 13)); p += 0.01L * V3(h[0], h[1], DIM == 3 ? h[2] : 0); srcAll.push_back(mkp<PT>(p)); tgtAll.push_back(mkp<PT>(q)); nrmAll.push_back(mkp<PT>(sc.nrm[i], true)); }
  FindRigidTransformationByLeastSquares<PT> reused;
  for (size_t n = 2 * P; n <= N; ++n) {
    LM J(n, P); LV Y(n);
    for (size_t r = 0; r < n; ++r) {
      V3 sP = V3::Zero(), tP = V3::Zero(), nn = V3::Zero();
      for (int d = 0; d < DIM; ++d) { sP[d] = (LD)srcAll[r][d]; tP[d] = (LD)tgtAll[r][d]; nn[d] = nrmAll[r][d]; }
      V3 cr = sP.cross(nn);
      if (DIM == 2) { J(r, 0) = nn[0]; J(r, 1) = nn[1]; J(r, 2) = cr[2]; } else { for (int d = 0; d < 3; ++d) { J(r, d) = nn[d]; J(r, 3 + d) = cr[d]; } }
      Y(r) = (tP - sP).dot(nn);
    }
    Eigen::JacobiSVD<LM> svd(J); LD smax = svd.singularValues()(0), kap = smax / svd.singularValues()(P - 1);
    if (!(kap * kap < 1e6L) || 4 * P * eps * kap * kap > 0.25L) { c.trivial(); continue; }
    LV xref = J.householderQr().solve(Y);
    LD tol = 4 * P * eps * kap * kap * (xref.norm() + Y.norm() / smax) + 16 * eps * (1 + tr.norm());
    PointSet<PT> src(srcAll.begin(), srcAll.begin() + n), tgt(tgtAll.begin(), tgtAll.begin() + n); NormalSet<PT> nrm(nrmAll.begin(), nrmAll.begin() + n);
    std::vector<Correspondence> cor; for (size_t i = n; i-- > 0;) cor.emplace_back(i, i);
    for (int ov = 0; ov < 3; ++ov) {   // aligned on a fresh estimator, index-based (on the full sets) on a fresh estimator, index-based on one estimator reused for every size
      H got; if (ov == 0) { FindRigidTransformationByLeastSquares<PT> e; got = e.find(src, tgt, nrm); } else if (ov == 1) { FindRigidTransformationByLeastSquares<PT> e; got = e.find(srcAll, tgtAll, nrmAll, cor); } else got = reused.find(srcAll, tgtAll, nrmAll, cor);
      c.eval(); c.nontrivial();
      bool shape; LV x = params_of<PT>(got, shape);
      for (int j = 0; j < P; ++j) c.obs((double)x[j]);
      LD err = x.allFinite() ? (x - xref).norm() : HUGE_VALL;
      c.note_max(std::string("all_sizes_err_over_tol_") + tname, (double)(err / tol));
      if (!shape || !(err <= tol)) { c.violation("FindRigidTransformationByLeastSquares.find.notLeastSquaresSolution", vf::JO().str("type", tname).str("scene", sc.name).str("explorer", "all sizes").u("correspondences", n).i("overload", ov).num("kappa_J", kap).done(), vf::JO().num("param_err", err).num("tol", tol).done()); break; }
    }
  }
}

const char* kTypes[] = {"Vector2d", "Vector2f", "Homogeneous2d", "Homogeneous2f", "Vector3d", "Vector3f", "Homogeneous3d", "Homogeneous3f"};
std::vector<Scene> g2, g3;
void init() { if (g2.empty()) { g2 = scenes(2); g3 = scenes(3); } }

}  // namespace

uint64_t vf_ncases(const std::string& tier) { init(); return 4 * g2.size() + 4 * g3.size() + 8 * 18 + 8 + 8; }

void vf_run(uint64_t idx, const std::string& tier, vf::Ctx& c) {
  init();
  uint64_t nl = 4 * g2.size() + 4 * g3.size();
  if (idx >= nl + 8 * 18 + 8) { int t = (int)(idx - nl - 8 * 18 - 8);
    switch (t) { case 0: all_sizes<Eigen::Vector2d>(c, kTypes[0], g2[3]); break; case 1: all_sizes<Eigen::Vector2f>(c, kTypes[1], g2[3]); break; case 2: all_sizes<HomogeneousCoordinates2d>(c, kTypes[2], g2[3]); break; case 3: all_sizes<HomogeneousCoordinates2f>(c, kTypes[3], g2[3]); break;
      case 4: all_sizes<Eigen::Vector3d>(c, kTypes[4], g3[3]); break; case 5: all_sizes<Eigen::Vector3f>(c, kTypes[5], g3[3]); break; case 6: all_sizes<HomogeneousCoordinates3d>(c, kTypes[6], g3[3]); break; default: all_sizes<HomogeneousCoordinates3f>(c, kTypes[7], g3[3]); }
    return; }
  if (idx >= nl) { int t = (int)(idx - nl) / 18, f = (int)(idx - nl) % 18; if (idx - nl >= 8 * 18) { t = (int)(idx - nl) - 8 * 18; f = -1; } int d = tier == "thorough" ? 6 : 3;
    switch (t) { case 0: run_sequences<Eigen::Vector2d>(c, kTypes[0], g2[1], d, f); break; case 1: run_sequences<Eigen::Vector2f>(c, kTypes[1], g2[1], d, f); break; case 2: run_sequences<HomogeneousCoordinates2d>(c, kTypes[2], g2[1], d, f); break; case 3: run_sequences<HomogeneousCoordinates2f>(c, kTypes[3], g2[1], d, f); break;
      case 4: run_sequences<Eigen::Vector3d>(c, kTypes[4], g3[1], d, f); break; case 5: run_sequences<Eigen::Vector3f>(c, kTypes[5], g3[1], d, f); break; case 6: run_sequences<HomogeneousCoordinates3d>(c, kTypes[6], g3[1], d, f); break; default: run_sequences<HomogeneousCoordinates3f>(c, kTypes[7], g3[1], d, f); }
    return; }
  if (idx < 4 * g2.size()) { int t = idx / g2.size(); const auto& s = g2[idx % g2.size()];
    switch (t) { case 0: run_scene<Eigen::Vector2d>(c, kTypes[0], s, tier == "thorough"); break; case 1: run_scene<Eigen::Vector2f>(c, kTypes[1], s, tier == "thorough"); break; case 2: run_scene<HomogeneousCoordinates2d>(c, kTypes[2], s, tier == "thorough"); break; default: run_scene<HomogeneousCoordinates2f>(c, kTypes[3], s, tier == "thorough"); } }
  else { uint64_t r = idx - 4 * g2.size(); int t = r / g3.size(); const auto& s = g3[r % g3.size()];
    switch (t) { case 0: run_scene<Eigen::Vector3d>(c, kTypes[4], s, tier == "thorough"); break; case 1: run_scene<Eigen::Vector3f>(c, kTypes[5], s, tier == "thorough"); break; case 2: run_scene<HomogeneousCoordinates3d>(c, kTypes[6], s, tier == "thorough"); break; default: run_scene<HomogeneousCoordinates3f>(c, kTypes[7], s, tier == "thorough"); } }
}

std::string vf_case_params(uint64_t idx, const std::string& tier) { init(); if (idx >= 4 * g2.size() + 4 * g3.size() + 152) return vf::JO().u("case", idx).str("explorer", "all sizes").str("type", kTypes[idx - 4 * g2.size() - 4 * g3.size() - 152]).done(); if (idx >= 4 * g2.size() + 4 * g3.size()) return vf::JO().u("case", idx).str("explorer", "S").str("type", kTypes[(idx - 4 * g2.size() - 4 * g3.size()) >= 144 ? (idx - 4 * g2.size() - 4 * g3.size()) - 144 : (idx - 4 * g2.size() - 4 * g3.size()) / 18]).i("first_op", (idx - 4 * g2.size() - 4 * g3.size()) >= 144 ? -1 : (int)((idx - 4 * g2.size() - 4 * g3.size()) % 18)).done(); bool is2 = idx < 4 * g2.size(); uint64_t r = is2 ? idx : idx - 4 * g2.size(); const auto& g = is2 ? g2 : g3; return vf::JO().u("case", idx).str("type", kTypes[(is2 ? 0 : 4) + r / g.size()]).str("scene", g[r % g.size()].name).done(); }

std::string vf_describe(const std::string& tier) {
  init(); vf::JO o; std::vector<std::string> a, b; for (auto& s : g2) a.push_back(s.name); for (auto& s : g3) b.push_back(s.name);
  o.strs("scenes_2d", a).strs("scenes_3d", b);
  o.str("motions_thorough", "angles {0,1e-6,+-1e-4,1e-3,1e-2,-0.03,0.05,0.1}, 3D: six axes, two more translations (one of the size of the extent, one of 1e-6)");
  o.str("motions", "rotation angle {0,1e-4,1e-2,0.1} about z (3D: z, x, (1,-1,1)) x translation {0, (0.05,-0.02,0.03), 0.4 x extent}; exact and perturbed (0.01) sources");
  o.str("correspondences", "identity, subset in reversed order, target and normals stored permuted (source index != target index), many-to-one (every source point matched to two target points: more correspondences than source points), neighbours swapped two by two with the first / middle / last entry in place");
  o.str("overloads", "index-based on a fresh estimator, index-based on one estimator reused for the whole scene, aligned, preconditioned by 1e-3 and 1e3 with setPreconditioner");
  o.str("S", std::string("every sequence of ") + (tier == "thorough" ? "6" : "3") + " operations out of 18 (all / half of the points x index-based / aligned x {find on sets scaled as configured, setPreconditioner with scale 1, 0.05, 40 then find}; assign the estimator to another long-lived estimator and continue with that one; continue with a copy-constructed estimator) on ONE estimator, 8 point types, 40-point square / 96-point box with a 0.09 rad motion and perturbed sources; every answer within twice the forward-error bound of the answer of a fresh estimator");
  o.str("all_sizes", "every correspondence count from 2P to 500 on the 500-point corridor / room scene (0.02 rad motion, perturbed sources), aligned and index-based overloads on fresh estimators and index-based on one estimator reused for every size, all 8 point types, vs the QR reference");
  o.str("S_long", "per point type: a fixed script of 30 calls cycling through the 16 find operations on one estimator, and every variant with ONE position replaced by any of the 18 operations (deviation bound 1); same oracle after every call");
  o.str("oracle", "J and Y rebuilt from the definition in long double; parameters vs Householder-QR solution within 4 p eps kappa^2 (|x|+|Y|/smax); identity+skew+translation shape; normal-equation residual; all overloads agree; pure translation exact; rotation error <= 2 kappa theta^2 (extent+|t|+1) sqrt(p); kappa(J)^2 >= 1e6 or no digits in the scalar type => outside the quantifier (trivial)");
  return o.done();
}

VF_MAIN()
