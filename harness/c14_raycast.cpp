// C14 -- RayCasting visits a connected, in-bounds chain of cells covering the segment; casts with an explicit end point
// do not depend on earlier use of the same caster.
//  L: lattice over (scalar, DIM, grid, origin point, end point) -- points from a sub-cell lattice of cells spread over the grid.
//  S: every sequence (to a depth) of setOriginPoint / setEndPoint / cast(e) / cast(o,e) / cast() / next() on one caster;
//     every cast(e) / cast(o,e) must equal the same call on a fresh caster.
#include <romea_core_common/containers/grid/RayTracing.hpp>
#include "vrun.hpp"
#include <unordered_set>

const char* kProperty = "C14";
using namespace romea::core;

namespace {

template <class S> S ulp(S x) { x = std::fabs(x); return std::nextafter(x, std::numeric_limits<S>::infinity()) - x; }

struct GridCfg { double res; int cells; bool interval; double lo, hi; bool sameWidth = false; };   // sameWidth: every axis has the width of axis 0 (equal cell counts) and a lower bound shifted by 3 per axis

template <class S, size_t DIM> GridIndexMapping<S, DIM> make_grid(const GridCfg& g) {
  using P = Eigen::Matrix<S, DIM, 1>;
  if (g.interval) {
    P lo, hi; for (size_t d = 0; d < DIM; ++d) { lo[d] = (S)(g.sameWidth ? g.lo + 3.0 * d : g.lo - 0.13 * d); hi[d] = (S)(g.sameWidth ? g.hi + 3.0 * d : g.hi + 0.29 * d); }
    return GridIndexMapping<S, DIM>(Interval<S, DIM>(lo, hi), (S)g.res);
  }
  S R = (S)(g.res * (g.cells - 1) / 2);
  return GridIndexMapping<S, DIM>(R, (S)g.res);
}

template <class S, size_t DIM> std::string pt(const Eigen::Matrix<S, DIM, 1>& p) { std::vector<long double> v(DIM); for (size_t d = 0; d < DIM; ++d) v[d] = p[d]; return vf::jarr(v); }
template <size_t DIM> std::string ix(const Eigen::Matrix<size_t, DIM, 1>& p) { std::vector<long double> v(DIM); for (size_t d = 0; d < DIM; ++d) v[d] = (long double)p[d]; return vf::jarr(v); }

// centre of a cell from the definition of the grid, not from the grid's own table (symmetric form: cell (N-1)/2 is centred on 0); the interval
// form keeps the table (its origin is floor(lower/res) res, checked by C13)
template <class S, size_t DIM, class I> Eigen::Matrix<S, DIM, 1> cell_centre(GridIndexMapping<S, DIM>& g, const GridCfg& gc, const I& cell) {
  auto N = g.getNumberOfCellsAlongAxes(); Eigen::Matrix<S, DIM, 1> p;
  if (gc.interval) {   // general interval form: the first cell is centred on floor(lower/res) res, per axis (the construction C13 checks)
    S res = g.getCellResolution();
    for (size_t d = 0; d < DIM; ++d) { S lo = (S)(gc.sameWidth ? gc.lo + 3.0 * d : gc.lo - 0.13 * d); p[d] = (S)((std::floor(lo / res) + (S)cell[d]) * res); }   // cells are CENTRED on the multiples of the resolution, the first one on floor(lower/res) res
    return p;
  }
  for (size_t d = 0; d < DIM; ++d) p[d] = (S)(((double)cell[d] - (double)(N[d] - 1) / 2) * (double)g.getCellResolution());
  return p;
}

// full oracle for one cast of a fresh caster
template <class S, size_t DIM>
bool check_cast(vf::Ctx& c, GridIndexMapping<S, DIM>& g, const Eigen::Matrix<S, DIM, 1>& o, const Eigen::Matrix<S, DIM, 1>& e,
                const VectorOfEigenVector<Eigen::Matrix<size_t, DIM, 1>>& ray, const char* tname, const GridCfg& gc, const char* how) {
  using P = Eigen::Matrix<S, DIM, 1>; using I = Eigen::Matrix<size_t, DIM, 1>;
  S res = g.getCellResolution();
  I N = g.getNumberOfCellsAlongAxes();
  I io = g.computeCellIndexes(o), ie = g.computeCellIndexes(e);
  auto params = [&]() { return vf::JO().str("type", tname).i("dim", DIM).num("res", res).i("cells_axis0", N[0]).b("interval_form", gc.interval).raw("origin", pt<S, DIM>(o)).raw("end", pt<S, DIM>(e)).str("call", how).done(); };
  c.eval();
  size_t l1 = 0; for (size_t d = 0; d < DIM; ++d) l1 += io[d] > ie[d] ? io[d] - ie[d] : ie[d] - io[d];
  for (auto& cell : ray) for (size_t d = 0; d < DIM; ++d) c.obs((uint64_t)cell[d]);
  if (ray.size() != l1 + 1) { c.violation("RayCasting.cast.length", params(), vf::JO().u("got", ray.size()).u("want", l1 + 1).done()); return false; }
  if (ray[0] != io) { c.violation("RayCasting.cast.firstCell", params(), vf::JO().raw("got", ix<DIM>(ray[0])).raw("want", ix<DIM>(io)).done()); return false; }
  long double range = 0, maxc = res;
  for (size_t d = 0; d < DIM; ++d) {
    long double dd = (long double)e[d] - o[d]; range += dd * dd; maxc = std::max<long double>(maxc, std::max(fabsl(o[d]), fabsl(e[d])));
    const auto& cen = g.getCellCentersPositionAlong(d);   // cell borders are computed from these: their rounding is that of the grid extent
    maxc = std::max<long double>(maxc, std::max(fabsl(cen.front()), fabsl(cen.back())) + res);
  }
  range = sqrtl(range);
  long double tol = (long double)(ray.size() + 4) * (long double)ulp<S>((S)std::max<long double>(range, maxc)) + 4 * (long double)ulp<S>((S)maxc);
  c.note_max(std::string("tol_over_res_") + tname, (double)(tol / res));
  for (size_t k = 0; k < ray.size(); ++k) {
    for (size_t d = 0; d < DIM; ++d) if (!(ray[k][d] < N[d])) { c.violation("RayCasting.cast.outOfGrid", params(), vf::JO().u("step", k).raw("cell", ix<DIM>(ray[k])).done()); return false; }
    if (k) {
      size_t diff = 0; for (size_t d = 0; d < DIM; ++d) diff += ray[k][d] > ray[k - 1][d] ? ray[k][d] - ray[k - 1][d] : ray[k - 1][d] - ray[k][d];
      if (diff != 1) { c.violation("RayCasting.cast.notFaceAdjacent", params(), vf::JO().u("step", k).raw("cell", ix<DIM>(ray[k])).raw("prev", ix<DIM>(ray[k - 1])).done()); return false; }
    }
    // the segment must cross the (tol-inflated) closed cell: slab clipping in long double
    P ce = cell_centre<S, DIM>(g, gc, ray[k]);
    long double t0 = 0, t1 = 1; bool hit = true;
    for (size_t d = 0; d < DIM && hit; ++d) {
      long double lo = (long double)ce[d] - (long double)res / 2 - tol, hi = (long double)ce[d] + (long double)res / 2 + tol;
      long double a = o[d], dir = (long double)e[d] - a;
      if (dir == 0) { if (a < lo || a > hi) hit = false; }
      else { long double ta = (lo - a) / dir, tb = (hi - a) / dir; if (ta > tb) std::swap(ta, tb); t0 = std::max(t0, ta); t1 = std::min(t1, tb); if (t0 > t1) hit = false; }
    }
    if (!hit) { c.violation("RayCasting.cast.cellNotCrossed", params(), vf::JO().u("step", k).raw("cell", ix<DIM>(ray[k])).num("tol", tol).done()); return false; }
  }
  // last cell contains the end point (closed, +tol); equals the end point's own cell when the end is not near a border
  {
    P ce = cell_centre<S, DIM>(g, gc, ray.back()); bool inside = true, nearBorder = false;
    P cee = cell_centre<S, DIM>(g, gc, ie);
    for (size_t d = 0; d < DIM; ++d) {
      if (fabsl((long double)e[d] - ce[d]) > (long double)res / 2 + tol) inside = false;
      // which cell the end point belongs to is decided by ONE computeCellIndexes() call, not by the accumulated traversal: the end point is
      // "near a border" only within a few ulp of it, whatever the length of the ray (the traversal is masked on the end indexes, so it must stop there)
      if (fabsl(fabsl((long double)e[d] - cee[d]) - (long double)res / 2) <= 8 * (long double)ulp<S>((S)maxc)) nearBorder = true;
    }
    if (!inside || (!nearBorder && ray.back() != ie)) { c.violation("RayCasting.cast.lastCell", params(), vf::JO().raw("got", ix<DIM>(ray.back())).raw("end_cell", ix<DIM>(ie)).b("end_near_border", nearBorder).done()); return false; }
  }
  return true;
}

// ---- L --------------------------------------------------------------------------------------------------------
template <class S, size_t DIM>
void lattice(vf::Ctx& c, const char* tname, const GridCfg& gc, size_t originBlock, size_t nBlocks) {
  using P = Eigen::Matrix<S, DIM, 1>; using I = Eigen::Matrix<size_t, DIM, 1>;
  auto g = make_grid<S, DIM>(gc);
  I N = g.getNumberOfCellsAlongAxes();
  S res = g.getCellResolution();
  // per-axis coordinates: cells {first, 1, quarter, middle, last-1, last} x sub-cell offsets
  std::vector<std::vector<S>> ax(DIM);
  for (size_t d = 0; d < DIM; ++d) {
    const auto& cen = g.getCellCentersPositionAlong(d);
    S lo, hi;                                // the extent the grid was built from (points outside it are outside the quantifier)
    if (gc.interval) { lo = (S)(gc.sameWidth ? gc.lo + 3.0 * d : gc.lo - 0.13 * d); hi = (S)(gc.sameWidth ? gc.hi + 3.0 * d : gc.hi + 0.29 * d); } else { hi = (S)(gc.res * (gc.cells - 1) / 2); lo = -hi; }
    std::vector<size_t> cells = DIM == 2 ? std::vector<size_t>{0, 1, N[d] / 4, N[d] / 2, N[d] - 2, N[d] - 1} : std::vector<size_t>{0, N[d] / 2, N[d] - 1};
    std::vector<S> sub = DIM == 2 ? std::vector<S>{-0.5f, -0.25f, 0, 0.25f} : std::vector<S>{-0.5f, 0, 0.25f};
    for (size_t cidx : cells) for (S s : sub) { S x = cen[cidx] + s * res; if (x >= lo && x <= hi) ax[d].push_back(x); }
    // just below / just above a cell border (almost axis-parallel rays that still change cell along the minor axis)
    for (size_t cidx : (DIM == 2 ? std::vector<size_t>{1, N[d] / 2} : std::vector<size_t>{N[d] / 2})) {
      S b = cen[cidx] - res / 2, dl = std::max<S>(res / 131072, 4 * ulp<S>(b));
      for (S x : {(S)(b - dl), (S)(b + dl)}) if (x >= lo && x <= hi) ax[d].push_back(x);
    }
    std::sort(ax[d].begin(), ax[d].end()); ax[d].erase(std::unique(ax[d].begin(), ax[d].end()), ax[d].end());
  }
  vf::Radix r; for (size_t d = 0; d < DIM; ++d) r.dims.push_back(ax[d].size());
  uint64_t np = r.total();
  for (uint64_t a = originBlock; a < np; a += nBlocks) {
    auto ta = r.decode(a); P o; for (size_t d = 0; d < DIM; ++d) o[d] = ax[d][ta[d]];
    for (uint64_t b = 0; b < np; ++b) {
      auto tb = r.decode(b); P e; for (size_t d = 0; d < DIM; ++d) e[d] = ax[d][tb[d]];
      // three ways of obtaining a fresh caster on this grid: constructed on it, default-constructed then attached, moved from another grid
      int form = (int)((a + b) % 3);
      static GridIndexMapping<S, DIM> other((S)3, (S)0.5);
      RayCasting<S, DIM> rc0(&g), rc1, rc2(&other);
      if (form == 1) rc1.setGridIndexMapping(&g);
      if (form == 2) { P z = P::Zero(); (void)rc2.cast(z, z); rc2.setGridIndexMapping(&g); }
      RayCasting<S, DIM>& rc = form == 0 ? rc0 : form == 1 ? rc1 : rc2;
      auto ray = rc.cast(o, e);
      bool ok = check_cast<S, DIM>(c, g, o, e, ray, tname, gc, form == 0 ? "constructed-on-grid.cast(o,e)" : form == 1 ? "default-constructed+setGridIndexMapping.cast(o,e)" : "moved-from-another-grid.cast(o,e)");
      bool special = (a == b); for (size_t d = 0; d < DIM; ++d) if (ta[d] == tb[d]) special = true;   // axis-aligned / coincident
      { size_t same = 0; for (size_t d = 0; d < DIM; ++d) if ((long)ta[d] - (long)tb[d] == (long)ta[0] - (long)tb[0]) same++; if (same == DIM) special = true; }  // diagonal
      if (special) c.nontrivial(); else if (ray.size() > 2) c.nontrivial();
      if (ok && c.want_sample() && ray.size() > 3) c.sample(vf::JO().str("type", tname).num("res", res).raw("origin", pt<S, DIM>(o)).raw("end", pt<S, DIM>(e)).u("cells_visited", ray.size()).done());
      if (c.c.violations > 40) return;
    }
  }
}

// ---- S --------------------------------------------------------------------------------------------------------
template <class S, size_t DIM>
void sequences(vf::Ctx& c, const char* tname, int depth, size_t firstOp, bool longRun = false) {   // longRun: a fixed script of 30 operations with ONE position (every position in turn) replaced by any operation
  using P = Eigen::Matrix<S, DIM, 1>; using I = Eigen::Matrix<size_t, DIM, 1>;
  GridCfg gc{0.25, 21, false, 0, 0}, gcB{0.1, 61, false, 0, 0};
  auto g = make_grid<S, DIM>(gc); auto gB = make_grid<S, DIM>(gcB);   // same extent [-2.5,2.5] (resp. [-3,3]) at two resolutions: all four points lie in both
  std::vector<P> pts(4);
  for (size_t d = 0; d < DIM; ++d) { pts[0][d] = (S)(-1.3 + 0.4 * d); pts[1][d] = (S)(2.1 - 0.7 * d); pts[2][d] = (d == 0) ? (S)-1.3 : (S)1.9; pts[3][d] = (S)(0.125 + 0.25 * d); }
  // ops: 0-3 setOrigin(p), 4-7 setEnd(p), 8-11 cast(p), 12-27 cast(o,e), 28 cast(), 29 next(), 30/31 setGridIndexMapping(grid A / grid B)
  const int NOPS = 39;   // 38: switch to the other grid and cast from the point of the NEW grid that has the same cell indexes as the current origin had in the old one; 34: cast(getEndPoint(), p1) - polyline chaining, the origin argument aliases the caster's end point; 35: cast(p2, getOriginPoint()) - back to the previous origin, the end argument aliases the caster's origin; 36/37: the grid object the caster points to is re-assigned in place to the other / the first resolution; 32: assign the caster to another long-lived caster (bound to the other grid, with a past) and continue with that one; 33: continue with a copy-constructed caster
  auto opname = [&](int op) { char b[64]; if (op < 4) snprintf(b, 64, "setOriginPoint(p%d)", op); else if (op < 8) snprintf(b, 64, "setEndPoint(p%d)", op - 4); else if (op < 12) snprintf(b, 64, "cast(p%d)", op - 8); else if (op < 28) snprintf(b, 64, "cast(p%d,p%d)", (op - 12) / 4, (op - 12) % 4); else if (op == 28) snprintf(b, 64, "cast()"); else if (op == 29) snprintf(b, 64, "next()"); else if (op < 32) snprintf(b, 64, "setGridIndexMapping(grid%c)", op == 30 ? 'A' : 'B'); else if (op < 34) snprintf(b, 64, "%s", op == 32 ? "other = caster; continue with other" : "continue with a copy-constructed caster"); else if (op == 34) snprintf(b, 64, "cast(getEndPoint(),p1)"); else if (op == 35) snprintf(b, 64, "cast(p2,getOriginPoint())"); else if (op < 38) snprintf(b, 64, "grid object re-assigned in place (%s resolution)", op == 36 ? "other" : "first"); else snprintf(b, 64, "setGridIndexMapping(other); cast(same-index point, p1)"); return std::string(b); };
  if (longRun) depth = 30;
  const int pattern[10] = {13, 10, 29, 24, 28, 31, 18, 7, 8, 30};   // cast(p0,p1) cast(p2) next() cast(p3,p0) cast() setGrid(B) cast(p1,p2) setEndPoint(p3) cast(p0) setGrid(A)
  uint64_t total = 1; if (longRun) total = (uint64_t)depth * NOPS + 1; else for (int i = 1; i < depth; ++i) total *= NOPS;
  std::unordered_set<uint64_t> states;
  std::vector<int> seq(depth), base(depth); if (!longRun) seq[0] = (int)firstOp;
  for (int i = 0; i < depth; ++i) base[i] = pattern[i % 10];
  for (uint64_t k = 0; k < total; ++k) {
    if (longRun) { seq = base; if (k) seq[(k - 1) / NOPS] = (int)((k - 1) % NOPS); }
    else { uint64_t r = k; for (int i = 1; i < depth; ++i) { seq[i] = r % NOPS; r /= NOPS; } }
    g = make_grid<S, DIM>(gc);   // (an earlier sequence may have re-assigned it in place)
    std::unique_ptr<RayCasting<S, DIM>> rcp(new RayCasting<S, DIM>(&g)), otherp(new RayCasting<S, DIM>(&gB));
    bool endSet = false; P curE = P::Zero();
    (void)otherp->cast(pts[1], pts[0]);
#define rc (*rcp)
    GridIndexMapping<S, DIM>* cur = &g; const GridCfg* curCfg = &gc;
    bool originSet = false; P curO = P::Zero();
    for (int i = 0; i < depth; ++i) {
      int op = seq[i];
      // the model only tracks what the documented preconditions need: has an origin been set, and which
      if (!originSet && (op >= 4 && op < 12)) break;        // setEndPoint / cast(e) need an origin: outside the statement
      if ((op == 34 && !endSet) || ((op == 35 || op == 38) && !originSet)) break;   // chaining needs a previous end point / origin
      c.transitions();
      auto params = [&]() { std::vector<std::string> h; for (int j = 0; j <= i; ++j) h.push_back(opname(seq[j])); return vf::JO().str("type", tname).i("dim", DIM).strs("history", h).done(); };
      VectorOfEigenVector<I> got; bool isCast = false; P o = curO, e = P::Zero();
      if (op < 4) { rc.setOriginPoint(pts[op]); originSet = true; curO = pts[op]; }
      else if (op < 8) { rc.setEndPoint(pts[op - 4]); endSet = true; curE = pts[op - 4]; }
      else if (op < 12) { e = pts[op - 8]; got = rc.cast(e); isCast = true; }
      else if (op < 28) { o = pts[(op - 12) / 4]; e = pts[(op - 12) % 4]; got = rc.cast(o, e); originSet = true; curO = o; isCast = true; }
      else if (op == 28) { if (rc.computeRayNumberOfCells() < 100000) (void)rc.cast(); }
      else if (op == 29) { I cell = rc.getOriginPointIndexes(); rc.next(cell); }
      else if (op < 32) { cur = op == 30 ? &g : &gB; curCfg = op == 30 ? &gc : &gcB; rc.setGridIndexMapping(cur); originSet = false; }   // origin / end indexes belong to the previous grid: an origin must be set again
      else if (op == 34) { o = curE; e = pts[1]; got = rc.cast(rc.getEndPoint(), pts[1]); originSet = true; curO = o; isCast = true; }
      else if (op == 35) { o = pts[2]; e = curO; got = rc.cast(pts[2], rc.getOriginPoint()); originSet = true; curO = o; isCast = true; }
      else if (op == 38) {
        I idx = rc.getOriginPointIndexes(); if (cur == &g && curCfg != &gc) break;   // (grid A currently re-assigned to the other resolution: keep the bookkeeping simple)
        GridIndexMapping<S, DIM>* nw = cur == &g ? &gB : &g; const GridCfg* ncfg = cur == &g ? &gcB : &gc; auto Nn = nw->getNumberOfCellsAlongAxes();
        bool fits = true; for (size_t d = 0; d < DIM; ++d) if (idx[d] + 1 >= Nn[d] || idx[d] == 0) fits = false; if (!fits) break;
        P q = cell_centre<S, DIM>(*nw, *ncfg, idx); for (size_t d = 0; d < DIM; ++d) q[d] += (S)(0.3 * ncfg->res);
        cur = nw; curCfg = ncfg; rc.setGridIndexMapping(cur); o = q; e = pts[1]; got = rc.cast(q, pts[1]); originSet = true; curO = q; isCast = true; }
      else if (op >= 36) { if (cur != &g) break; g = make_grid<S, DIM>(op == 36 ? gcB : gc); curCfg = op == 36 ? &gcB : &gc; originSet = false; endSet = false; }   // same object, same address, the caster is not told
      else if (op == 32) { *otherp = *rcp; std::swap(rcp, otherp); }   // the copy keeps grid, origin and end of the original
      else { std::unique_ptr<RayCasting<S, DIM>> cp(new RayCasting<S, DIM>(*rcp)); otherp = std::move(rcp); rcp = std::move(cp); }
      if (isCast) {
        endSet = true; curE = e;
        c.eval(); if (i > 0) c.nontrivial();
        RayCasting<S, DIM> fresh(cur);
        auto want = fresh.cast(o, e);
        bool same = got.size() == want.size();
        for (size_t j = 0; same && j < got.size(); ++j) same = got[j] == want[j];
        for (auto& cell : got) for (size_t d = 0; d < DIM; ++d) c.obs((uint64_t)cell[d]);
        if (!same) { c.violation("RayCasting.cast.dependsOnHistory", params(), vf::JO().u("got_len", got.size()).u("fresh_len", want.size()).done()); break; }
        if (!check_cast<S, DIM>(c, *cur, o, e, got, tname, *curCfg, "reused.cast")) break;
      }
      uint64_t h = 17;
      for (size_t d = 0; d < DIM; ++d) { h = vf::mix64(h, rc.rayOriginIndexes_[d]); h = vf::mix64(h, rc.rayEndIndexes_[d]); h = vf::mix64(h, (uint64_t)(int64_t)rc.rayStep_[d]);
        double a = rc.rayTMax_[d], b = rc.rayTDelta_[d], oo = rc.rayOriginPoint_[d], ee = rc.rayEndPoint_[d]; uint64_t u; memcpy(&u, &a, 8); h = vf::mix64(h, u); memcpy(&u, &b, 8); h = vf::mix64(h, u); memcpy(&u, &oo, 8); h = vf::mix64(h, u); memcpy(&u, &ee, 8); h = vf::mix64(h, u); }
      if (states.insert(h).second) c.states();
    }
#undef rc
    c.traces();
    if (c.want_sample() && k == total / 3) { std::vector<std::string> h; for (int j = 0; j < depth; ++j) h.push_back(opname(seq[j])); c.sample(vf::JO().str("type", tname).strs("sequence", h).done()); }
    if (c.c.violations > 20) return;
  }
}


// ---- N: rays that pass a few per cent of a cell beside cell corners, from origins all over large grids; long 3D rays ending just inside a cell ----
template <class S, size_t DIM>
void near_corner(vf::Ctx& c, const char* tname) {
  using P = Eigen::Matrix<S, DIM, 1>;
  for (const GridCfg gc : {GridCfg{0.01, 2001, false, 0, 0}, GridCfg{0.25, 2001, false, 0, 0}, GridCfg{0.1, 201, false, 0, 0}}) {
    if (DIM == 3 && gc.cells == 2001 && gc.res != 0.01) continue;
    auto g = make_grid<S, DIM>(gc);
    auto N = g.getNumberOfCellsAlongAxes(); S res = g.getCellResolution();
    std::vector<size_t> cellsA = {1, N[0] / 2, N[0] - 11, N[0] - 2}, cellsB = {7, N[1] / 3, N[1] - 9};
    for (size_t ia : cellsA) for (size_t ib : cellsB) for (int m : {1, 2, 5}) for (double delta : {0.012, -0.012, 0.018, -0.018, 0.004, -0.004}) for (int sx : {1, -1}) for (int sy : {1, -1}) {
      P o, e;
      // cell centres from the definition of the symmetric grid (cell (N-1)/2 is centred on 0), not from the grid's own table
      auto centre = [&](size_t d, size_t i) { return (S)(((double)i - (double)(N[d] - 1) / 2) * gc.res); };
      o[0] = centre(0, ia); o[1] = centre(1, ib); if (DIM == 3) o[2] = centre(2, N[2] / 2);
      e = o; e[0] += (S)(sx * m * (double)res * (1 + delta)); e[1] += (S)(sy * m * (double)res); if (DIM == 3) e[2] += (S)(m * (double)res * (1 - delta));
      bool inside = true; for (size_t d = 0; d < DIM; ++d) { S hi = (S)(gc.res * (gc.cells - 1) / 2); if (e[d] < -hi || e[d] > hi) inside = false; }
      if (!inside) continue;
      RayCasting<S, DIM> rc(&g);
      auto ray = rc.cast(o, e);
      c.nontrivial();
      if (!check_cast<S, DIM>(c, g, o, e, ray, tname, gc, "near-corner.cast(o,e)")) return;
    }
    if (DIM == 3 && gc.cells == 2001) {   // long rays whose end point lies 1 % inside its cell next to two faces
      auto centre = [&](size_t d, size_t i) { return (S)(((double)i - (double)(N[d] - 1) / 2) * gc.res); };
      for (int k = 0; k < 240; ++k) {
        P o, e; size_t oc[3] = {5 + (size_t)(k % 40), 7 + (size_t)((k * 7) % 50), 9 + (size_t)((k * 3) % 60)}, ec[3] = {1990 - (size_t)((k * 31) % 900), 1985 - (size_t)((k * 17) % 700), 1980 - (size_t)((k * 23) % 800)};
        for (size_t d = 0; d < 3; ++d) { o[d] = centre(d, oc[d]) + (S)(0.13 * (d + 1) * gc.res); e[d] = centre(d, ec[d]); }
        // all rays travel towards +x +y +z: the end point sits 1 % (or 0.3 %) inside its cell next to the entry face of one axis and the exit face of another
        double in = k % 2 ? 0.49 : 0.497; int pat = k % 6;
        e[0] += (S)((pat == 0 || pat == 3 ? -in : pat == 1 || pat == 4 ? in : 0.3) * gc.res); e[1] += (S)((pat == 1 || pat == 5 ? -in : pat == 2 || pat == 3 ? in : -0.2) * gc.res); e[2] += (S)((pat == 2 || pat == 4 ? -in : pat == 0 || pat == 5 ? in : 0.1) * gc.res);
        RayCasting<S, DIM> rc(&g);
        auto ray = rc.cast(o, e);
        c.nontrivial();
        if (!check_cast<S, DIM>(c, g, o, e, ray, tname, gc, "long-ray.cast(o,e)")) return;
      }
    }
  }
}

const GridCfg kGrids2[] = {{0.1, 21, false, 0, 0}, {0.25, 21, false, 0, 0}, {1, 21, false, 0, 0}, {0.01, 201, false, 0, 0}, {0.1, 201, false, 0, 0}, {1, 201, false, 0, 0},
                           {0.1, 0, true, -3.37, 5.81}, {0.25, 0, true, 2.0, 12.0, true}, {0.01, 2001, false, 0, 0}, {0.25, 2001, false, 0, 0}, {1, 2001, false, 0, 0}};
const GridCfg kGrids3[] = {{0.1, 21, false, 0, 0}, {1, 21, false, 0, 0}, {0.25, 101, false, 0, 0}, {0.5, 0, true, 2.0, 12.0, true}, {0.01, 201, false, 0, 0}, {1, 201, false, 0, 0}};

struct Case { int kind; int type; int grid; size_t block, nblocks; int depth; size_t firstOp; };
std::vector<Case> g_cases[2];
const std::vector<Case>& cases(bool th) {
  auto& v = g_cases[th];
  if (!v.empty()) return v;
  int n2 = th ? 11 : 8, n3 = th ? 6 : 4;
  for (int t = 0; t < 4; ++t) {
    bool is3 = t & 1; int ng = is3 ? n3 : n2;
    for (int gI = 0; gI < ng; ++gI) { size_t nb = 16; for (size_t b = 0; b < nb; ++b) v.push_back({0, t, gI, b, nb, 0, 0}); }
  }
  for (int t = 0; t < 4; ++t) for (size_t f = 0; f < 39; ++f) v.push_back({1, t, 0, 0, 0, th ? 4 : 3, f});
  for (int t = 0; t < 4; ++t) v.push_back({1, t, 0, 0, 0, -1, 0});   // deviation-bounded long run
  for (int t = 0; t < 4; ++t) v.push_back({2, t, 0, 0, 0, 0, 0});    // near-corner rays and long 3D rays
  return v;
}
const char* kT[] = {"double2", "double3", "float2", "float3"};

}  // namespace

uint64_t vf_ncases(const std::string& tier) { return cases(tier == "thorough").size(); }

std::string vf_case_params(uint64_t idx, const std::string& tier) {
  const Case& k = cases(tier == "thorough")[idx];
  return vf::JO().u("case", idx).str("explorer", k.kind ? "S" : "L").str("type", kT[k.type]).i("grid", k.grid).done();
}

void vf_run(uint64_t idx, const std::string& tier, vf::Ctx& c) {
  const Case& k = cases(tier == "thorough")[idx];
  if (k.kind == 0) {
    switch (k.type) {
      case 0: lattice<double, 2>(c, kT[0], kGrids2[k.grid], k.block, k.nblocks); break;
      case 1: lattice<double, 3>(c, kT[1], kGrids3[k.grid], k.block, k.nblocks); break;
      case 2: lattice<float, 2>(c, kT[2], kGrids2[k.grid], k.block, k.nblocks); break;
      case 3: lattice<float, 3>(c, kT[3], kGrids3[k.grid], k.block, k.nblocks); break;
    }
  } else if (k.kind == 2) {
    switch (k.type) { case 0: near_corner<double, 2>(c, kT[0]); break; case 1: near_corner<double, 3>(c, kT[1]); break; case 2: near_corner<float, 2>(c, kT[2]); break; default: near_corner<float, 3>(c, kT[3]); }
  } else {
    switch (k.type) {
      case 0: sequences<double, 2>(c, kT[0], k.depth, k.firstOp, k.depth < 0); break;
      case 1: sequences<double, 3>(c, kT[1], k.depth, k.firstOp, k.depth < 0); break;
      case 2: sequences<float, 2>(c, kT[2], k.depth, k.firstOp, k.depth < 0); break;
      case 3: sequences<float, 3>(c, kT[3], k.depth, k.firstOp, k.depth < 0); break;
    }
  }
}

std::string vf_describe(const std::string& tier) {
  bool th = tier == "thorough";
  vf::JO o;
  o.str("grids_2d", th ? "res{0.1,0.25,1}x21, res{0.01,0.1,1}x201, two interval-form grids, res{0.01,0.25,1}x2001 cells/axis" : "res{0.1,0.25,1}x21, res{0.01,0.1,1}x201 cells/axis, two interval-form grids with unaligned bounds");
  o.str("grids_3d", th ? "res{0.1,1}x21, 0.25x101, interval form, res{0.01,1}x201" : "res{0.1,1}x21, 0.25x101, interval form");
  o.str("points", "2D: cells {0,1,N/4,N/2,N-2,N-1} x sub-cell offsets {-1/2 (border),-1/4,0 (centre),+1/4} per axis; 3D: cells {0,N/2,N-1} x {-1/2,0,+1/4}; plus border -+ max(res/2^17, 4ulp) for cells {1,N/2} (3D: N/2); all origin x end pairs (generic, axis-aligned, diagonal through corners, coincident)");
  o.str("near_corner_rays", "grids 0.01x2001, 0.25x2001 (2D), 0.1x201: origins at the centres of cells {1,N/2,N-11,N-2} x {7,N/3,N-9}, end = origin + m res ((1+d), 1 [, 1-d]) for m in {1,2,5}, d in {+-0.004,+-0.012,+-0.018}, all sign combinations (rays passing a few per cent of a cell beside the corners); 3D 0.01x2001: 240 rays of 3000-5500 cells ending 1 % / 0.3 % inside a cell next to the entry face of one axis and the exit face of another");
  o.str("fresh_caster_forms", "constructed on the grid / default-constructed then setGridIndexMapping / used on another grid then moved (rotating over the origin-end pairs)");
  o.str("tolerance", "(cells visited + 4) ulp(max(range,|coord|)) + 4 ulp(|coord|): worst-case accumulation of tMax += tDelta");
  o.i("sequence_depth", th ? 4 : 3).str("sequence_ops", "setOriginPoint(p0..3), setEndPoint(p0..3), cast(p), cast(p,q), cast(), next(), setGridIndexMapping(A|B), assign to another long-lived caster and continue with it, continue with a copy, cast(getEndPoint(),p) and cast(p,getOriginPoint()) with an argument aliasing the caster, the grid object re-assigned in place to another resolution, a switch to the other grid followed by a cast from the point that has the same cell indexes there = 39 ops (two grids of different resolution); all sequences, all four instantiations; differential oracle vs fresh caster + full geometric oracle; plus a fixed script of 30 operations and every variant with ONE position replaced by any operation");
  return o.done();
}

VF_MAIN()
