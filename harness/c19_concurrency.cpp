// C19 -- shared variables, online statistics and check-ups under concurrent use.
// Preemption-bounded exhaustive exploration of real threads running the real (unmodified) library code:
//  * scheduling points at every mutex lock / unlock and atomic access, injected by the force-included shim
//    (engine/sched/shim.hpp); a strictly serialising scheduler in an un-instrumented C file (engine/sched/sched.c);
//  * stateless DFS with prefix replay over all schedules with <= b preemptions (iterated b = 0..bound);
//  * per schedule: ThreadSanitizer happens-before race reports (the scheduler hand-off is invisible to TSan), deadlock,
//    linearizability of the recorded call/return history w.r.t. the structure itself run sequentially;
//  * every failing schedule is replayed and must fail identically; plus a free-running TSan pass of the same bodies.
#include <romea_core_common/concurrency/SharedVariable.hpp>
#include <romea_core_common/concurrency/SharedOptionalVariable.hpp>
#include <romea_core_common/monitoring/OnlineAverage.hpp>
#include <romea_core_common/monitoring/OnlineVariance.hpp>
#include <romea_core_common/monitoring/RateMonitoring.hpp>
#include <romea_core_common/diagnostic/CheckupEqualTo.hpp>
#include <romea_core_common/diagnostic/CheckupGreaterThan.hpp>
#include <romea_core_common/diagnostic/CheckupLowerThan.hpp>
#include <romea_core_common/diagnostic/CheckupReliability.hpp>
#include <romea_core_common/diagnostic/CheckupRate.hpp>
#include "vrun.hpp"

extern "C" {
void vs_begin(int nthreads); void vs_end(void); void vs_quiesce(void); int vs_enabled(int last, int* out); int vs_all_done(void);
void vs_resume(int t); void vs_thread_begin(int id); void vs_thread_end(void); uint64_t vs_now(void); int vs_race_count(void); int vs_pending_kind(int t);
}

const char* kProperty = "C19";
using namespace romea::core;

namespace {

struct OpRec { int thread, idx; std::string name, result; uint64_t t0, t1; };
struct Exec { std::vector<int> choices, nenabled, thread; std::vector<char> runningEnabled; std::vector<OpRec> hist; bool deadlock = false, diverged = false; int races = 0; };

// type-erased scenario: make a fresh object, thread op lists operating on it
struct Scenario {
  std::string name;
  std::function<std::shared_ptr<void>()> make;
  struct Op { std::string name; std::function<std::string(void*)> fn; };
  std::vector<std::vector<Op>> threads;
};

std::string dbits(double v) { char b[32]; uint64_t u; memcpy(&u, &v, 8); if (v != v) return "nan"; snprintf(b, sizeof b, "%016llx", (unsigned long long)u); return b; }
std::string rep(const DiagnosticReport& r) {
  std::string s;
  for (auto& d : r.diagnostics) s += std::to_string((int)d.status) + ":" + d.message + ";";
  s += "|"; for (auto& kv : r.info) s += kv.first + "=" + kv.second + ";";
  return s;
}

// ---- one execution under the scheduler --------------------------------------------------------------------------------
Exec run_schedule(const Scenario& s, const std::vector<int>& prefix) {
  Exec x; int n = (int)s.threads.size();
  std::shared_ptr<void> obj = s.make();
  int races0 = vs_race_count();
  std::vector<std::vector<OpRec>> local(n);
  vs_begin(n);
  std::vector<std::thread> th;
  for (int t = 0; t < n; ++t) th.emplace_back([&, t]() {
    vs_thread_begin(t);
    for (size_t i = 0; i < s.threads[t].size(); ++i) {
      OpRec r; r.thread = t; r.idx = (int)i; r.name = s.threads[t][i].name; r.t0 = vs_now();
      r.result = s.threads[t][i].fn(obj.get());
      r.t1 = vs_now(); local[t].push_back(r);
    }
    vs_thread_end();
  });
  vs_quiesce();
  int last = -1; size_t step = 0;
  while (!vs_all_done()) {
    int en[8]; int ne = vs_enabled(last, en);
    if (ne == 0) { x.deadlock = true; break; }
    int choice = step < prefix.size() ? prefix[step] : 0;
    if (choice >= ne) { x.diverged = true; choice = 0; }
    x.choices.push_back(choice); x.nenabled.push_back(ne); x.runningEnabled.push_back(last >= 0 && en[0] == last); x.thread.push_back(en[choice]);
    last = en[choice];
    vs_resume(last);
    ++step;
    if (step > 100000) { x.deadlock = true; break; }
  }
  if (x.deadlock) return x;   // threads are stuck for good: the caller reports and ends the process
  for (auto& t : th) t.join();
  vs_end();
  for (auto& l : local) for (auto& r : l) x.hist.push_back(r);
  x.races = vs_race_count() - races0;
  return x;
}

// ---- linearizability w.r.t. the structure itself run sequentially ---------------------------------------------------------
struct LinCheck {
  const Scenario& s; const std::vector<OpRec>& h; std::vector<int> seq; std::vector<char> used; uint64_t replays = 0;
  bool ok_prefix() {   // replay seq on a fresh object; every op must return what was recorded
    std::shared_ptr<void> o = s.make(); ++replays;
    for (int k : seq) if (s.threads[h[k].thread][h[k].idx].fn(o.get()) != h[k].result) return false;
    return true;
  }
  bool dfs() {
    if (seq.size() == h.size()) return true;
    for (size_t k = 0; k < h.size(); ++k) {
      if (used[k]) continue;
      bool ready = true;
      for (size_t j = 0; j < h.size(); ++j) if (!used[j] && j != k && h[j].t1 < h[k].t0) { ready = false; break; }   // an operation that completed before k started must come first
      if (!ready) continue;
      seq.push_back((int)k); used[k] = 1;
      if (ok_prefix() && dfs()) return true;
      seq.pop_back(); used[k] = 0;
    }
    return false;
  }
};
std::string hist_sig(const std::vector<OpRec>& h) {
  std::string s;
  for (auto& r : h) { s += std::to_string(r.thread) + "." + std::to_string(r.idx) + "=" + r.result + "<"; for (auto& q : h) if (q.t1 < r.t0) s += std::to_string(q.thread) + "." + std::to_string(q.idx) + ","; s += ">"; }
  return s;
}
std::string hist_json(const std::vector<OpRec>& h) {
  std::vector<OpRec> v = h; std::sort(v.begin(), v.end(), [](const OpRec& a, const OpRec& b) { return a.t0 < b.t0; });
  std::string s = "["; for (size_t i = 0; i < v.size(); ++i) { if (i) s += ","; s += vf::JO().i("thread", v[i].thread).str("op", v[i].name).str("returned", v[i].result).u("call", v[i].t0).u("return", v[i].t1).done(); } return s + "]";
}

// ---- scenarios ----------------------------------------------------------------------------------------------------------
struct Pair { long a = 0, b = 0; };
template <class T> std::shared_ptr<void> sp(T* p) { return std::shared_ptr<void>(p, [](void* q) { delete static_cast<T*>(q); }); }

template <class CK> void add_checkup(std::vector<Scenario>& v, const char* name) {
  Scenario s; s.name = name; s.make = []() { return sp(new CK("q", 10.0, 1.0)); };
  s.threads = {{{"evaluate(10)", [](void* o) { return std::to_string((int)static_cast<CK*>(o)->evaluate(10.0)); }}, {"evaluate(20)", [](void* o) { return std::to_string((int)static_cast<CK*>(o)->evaluate(20.0)); }}, {"timeout()", [](void* o) { static_cast<CK*>(o)->timeout(); return std::string("-"); }}},
               {{"getReport()", [](void* o) { DiagnosticReport r = static_cast<CK*>(o)->getReport(); return rep(r); }}, {"getReport()", [](void* o) { DiagnosticReport r = static_cast<CK*>(o)->getReport(); return rep(r); }}}};
  v.push_back(s);
}
template <class CR> void add_rate(std::vector<Scenario>& v, const char* name) {
  Scenario s; s.name = name;
  s.make = []() { CR* c = new CR("lidar", 2.0, 0.1); for (int i = 1; i <= 3; ++i) c->evaluate(durationFromMilliSecond(500 * i)); return sp(c); };   // 3 stamps fed sequentially: the window (W=4) fills and rolls during the concurrent part
  auto ev = [](long ms) { return Scenario::Op{"evaluate(" + std::to_string(ms) + "ms)", [ms](void* o) { return std::to_string((int)static_cast<CR*>(o)->evaluate(durationFromMilliSecond(ms))); }}; };
  auto hb = [](long ms) { return Scenario::Op{"heartBeatCallback(" + std::to_string(ms) + "ms)", [ms](void* o) { return std::to_string((int)static_cast<CR*>(o)->heartBeatCallback(durationFromMilliSecond(ms))); }}; };
  s.threads = {{ev(2000), ev(2500), ev(3000)}, {hb(2600), hb(4000)}, {{"getReport()", [](void* o) { DiagnosticReport r = static_cast<CR*>(o)->getReport(); return rep(r); }}}};
  v.push_back(s);
}

template <class CR> void add_rate_stall(std::vector<Scenario>& v, const char* name) {
  Scenario s; s.name = name;
  s.make = []() { CR* c = new CR("lidar", 2.0, 0.1); for (int i = 1; i <= 5; ++i) c->evaluate(durationFromMilliSecond(500 * i)); return sp(c); };   // window full, last stamp 2.5 s
  Scenario::Op ev{"evaluate(3100ms)", [](void* o) { return std::to_string((int)static_cast<CR*>(o)->evaluate(durationFromMilliSecond(3100))); }};
  Scenario::Op hb{"heartBeatCallback(3100ms)", [](void* o) { return std::to_string((int)static_cast<CR*>(o)->heartBeatCallback(durationFromMilliSecond(3100))); }};
  Scenario::Op gr{"getReport()", [](void* o) { DiagnosticReport r = static_cast<CR*>(o)->getReport(); return rep(r); }};
  s.threads = {{ev}, {hb}, {gr, gr}};
  v.push_back(s);
}

std::vector<Scenario> scenarios() {
  std::vector<Scenario> v;
  { Scenario s; s.name = "SharedVariable<Pair>: 1 writer (2 stores), 2 readers (2+1 loads)"; using T = SharedVariable<Pair>;
    s.make = []() { return sp(new T()); };
    auto stf = [](long k) { return Scenario::Op{"store(" + std::to_string(k) + ")", [k](void* o) { Pair p; p.a = k; p.b = k; static_cast<T*>(o)->store(p); return std::string("-"); }}; };
    Scenario::Op ld{"load()", [](void* o) { Pair p = static_cast<T*>(o)->load(); return std::to_string(p.a) + "," + std::to_string(p.b); }};
    s.threads = {{stf(1), stf(2)}, {ld, ld}, {ld}}; v.push_back(s); }
  { Scenario s; s.name = "SharedOptionalVariable<int>: 2 producers (2+1 stores), 2 consumers (2+1 consumes)"; using T = SharedOptionalVariable<int>;
    s.make = []() { return sp(new T()); };
    auto stf = [](int k) { return Scenario::Op{"store(" + std::to_string(k) + ")", [k](void* o) { static_cast<T*>(o)->store(k); return std::string("-"); }}; };
    Scenario::Op co{"consume()", [](void* o) { auto r = static_cast<T*>(o)->consume(); return r ? std::to_string(*r) : std::string("none"); }};
    s.threads = {{stf(1), stf(2)}, {stf(3)}, {co, co}, {co}}; v.push_back(s); }
  { Scenario s; s.name = "OnlineAverage(W=2): updater (update,update,reset,update), reader (getAverage,isAvailable,getAverage)"; using T = OnlineAverage;
    s.make = []() { return sp(new T(1.0, 2)); };
    auto up = [](double x) { return Scenario::Op{"update(" + std::to_string((int)x) + ")", [x](void* o) { static_cast<T*>(o)->update(x); return std::string("-"); }}; };
    Scenario::Op rs{"reset()", [](void* o) { static_cast<T*>(o)->reset(); return std::string("-"); }};
    Scenario::Op ga{"getAverage()", [](void* o) { return dbits(static_cast<T*>(o)->getAverage()); }}, ia{"isAvailable()", [](void* o) { return std::to_string((int)static_cast<T*>(o)->isAvailable()); }};
    s.threads = {{up(1), up(3), rs, up(5)}, {ga, ia, ga}}; v.push_back(s); }
  { Scenario s; s.name = "OnlineVariance(W=2): updater (update,update,reset,update), reader (getVariance,isAvailable,getAverage)"; using T = OnlineVariance;
    s.make = []() { return sp(new T(1.0, 2)); };
    auto up = [](double x) { return Scenario::Op{"update(" + std::to_string((int)x) + ")", [x](void* o) { static_cast<T*>(o)->update(x); return std::string("-"); }}; };
    Scenario::Op rs{"reset()", [](void* o) { static_cast<T*>(o)->reset(); return std::string("-"); }};
    Scenario::Op gv{"getVariance()", [](void* o) { return dbits(static_cast<T*>(o)->getVariance()); }}, ga{"getAverage()", [](void* o) { return dbits(static_cast<T*>(o)->getAverage()); }}, ia{"isAvailable()", [](void* o) { return std::to_string((int)static_cast<T*>(o)->isAvailable()); }};
    s.threads = {{up(1), up(3), rs, up(5)}, {gv, ia, ga}}; v.push_back(s); }
  { Scenario s; s.name = "OnlineVariance(W=2): updater (update,update,reset,update), reader (getAverage,getVariance,isAvailable)"; using T = OnlineVariance;
    s.make = []() { return sp(new T(1.0, 2)); };
    auto up = [](double x) { return Scenario::Op{"update(" + std::to_string((int)x) + ")", [x](void* o) { static_cast<T*>(o)->update(x); return std::string("-"); }}; };
    Scenario::Op rs{"reset()", [](void* o) { static_cast<T*>(o)->reset(); return std::string("-"); }};
    Scenario::Op gv{"getVariance()", [](void* o) { return dbits(static_cast<T*>(o)->getVariance()); }}, ga{"getAverage()", [](void* o) { return dbits(static_cast<T*>(o)->getAverage()); }}, ia{"isAvailable()", [](void* o) { return std::to_string((int)static_cast<T*>(o)->isAvailable()); }};
    s.threads = {{up(1), up(3), rs, up(5)}, {ga, gv, ia}}; v.push_back(s); }
  { Scenario s; s.name = "OnlineAverage(W=2): updater (update,update,reset,update), reader (isAvailable,getAverage,isAvailable)"; using T = OnlineAverage;
    s.make = []() { return sp(new T(1.0, 2)); };
    auto up = [](double x) { return Scenario::Op{"update(" + std::to_string((int)x) + ")", [x](void* o) { static_cast<T*>(o)->update(x); return std::string("-"); }}; };
    Scenario::Op rs{"reset()", [](void* o) { static_cast<T*>(o)->reset(); return std::string("-"); }};
    Scenario::Op ga{"getAverage()", [](void* o) { return dbits(static_cast<T*>(o)->getAverage()); }}, ia{"isAvailable()", [](void* o) { return std::to_string((int)static_cast<T*>(o)->isAvailable()); }};
    s.threads = {{up(1), up(3), rs, up(5)}, {ia, ga, ia}}; v.push_back(s); }
  { Scenario s; s.name = "OnlineVariance(W=2): updater (update,reset,update,update), reader (isAvailable,getVariance,getAverage)"; using T = OnlineVariance;
    s.make = []() { return sp(new T(1.0, 2)); };
    auto up = [](double x) { return Scenario::Op{"update(" + std::to_string((int)x) + ")", [x](void* o) { static_cast<T*>(o)->update(x); return std::string("-"); }}; };
    Scenario::Op rs{"reset()", [](void* o) { static_cast<T*>(o)->reset(); return std::string("-"); }};
    Scenario::Op gv{"getVariance()", [](void* o) { return dbits(static_cast<T*>(o)->getVariance()); }}, ga{"getAverage()", [](void* o) { return dbits(static_cast<T*>(o)->getAverage()); }}, ia{"isAvailable()", [](void* o) { return std::to_string((int)static_cast<T*>(o)->isAvailable()); }};
    s.threads = {{up(1), rs, up(3), up(5)}, {ia, gv, ga}}; v.push_back(s); }
  { Scenario s; s.name = "SharedVariable<Pair> through operator= and the conversion operator: writer (2 assignments), 2 readers (2+1 conversions)"; using T = SharedVariable<Pair>;
    s.make = []() { Pair p; p.a = 7; p.b = 7; return sp(new T(p)); };
    auto as = [](long k) { return Scenario::Op{"operator=(" + std::to_string(k) + ")", [k](void* o) { Pair p; p.a = k; p.b = k; *static_cast<T*>(o) = p; return std::string("-"); }}; };
    Scenario::Op cv{"operator T()", [](void* o) { Pair p = *static_cast<T*>(o); return std::to_string(p.a) + "," + std::to_string(p.b); }};
    s.threads = {{as(1), as(2)}, {cv, cv}, {cv}}; v.push_back(s); }
  { Scenario s; s.name = "SharedOptionalVariable<int> constructed with a value: 1 producer (2 stores), 2 consumers (2+2 consumes)"; using T = SharedOptionalVariable<int>;
    s.make = []() { return sp(new T(9)); };
    auto stf = [](int k) { return Scenario::Op{"store(" + std::to_string(k) + ")", [k](void* o) { static_cast<T*>(o)->store(k); return std::string("-"); }}; };
    Scenario::Op co{"consume()", [](void* o) { auto r = static_cast<T*>(o)->consume(); return r ? std::to_string(*r) : std::string("none"); }};
    s.threads = {{stf(1), stf(2)}, {co, co}, {co, co}}; v.push_back(s); }
  { Scenario s; s.name = "CheckupGreaterThan: evaluator (timeout,evaluate,timeout,evaluate), reader (2 report copies)"; using CK = CheckupGreaterThan<double>;
    s.make = []() { return sp(new CK("q", 10.0, 1.0)); };
    Scenario::Op to{"timeout()", [](void* o) { static_cast<CK*>(o)->timeout(); return std::string("-"); }};
    auto ev = [](double x) { return Scenario::Op{"evaluate(" + std::to_string((int)x) + ")", [x](void* o) { return std::to_string((int)static_cast<CK*>(o)->evaluate(x)); }}; };
    Scenario::Op gr{"getReport()", [](void* o) { DiagnosticReport r = static_cast<CK*>(o)->getReport(); return rep(r); }};
    s.threads = {{to, ev(5), to, ev(20)}, {gr, gr}}; v.push_back(s); }
  {   // two INDEPENDENT check-ups of different classes, each with its own writer: nothing may be shared between them (e.g. a formatter)
    struct Two { CheckupGreaterThan<double> a{"a", 10.0, 1.0}; CheckupLowerThan<double> b{"b", 10.0, 1.0}; };
    Scenario s; s.name = "two independent check-ups (GreaterThan, LowerThan): one evaluator each (2 evaluations), one reader (a report copy of each)";
    s.make = []() { return sp(new Two); };
    s.threads = {{{"a.evaluate(377.5)", [](void* o) { return std::to_string((int)static_cast<Two*>(o)->a.evaluate(377.5)); }}, {"a.evaluate(12.25)", [](void* o) { return std::to_string((int)static_cast<Two*>(o)->a.evaluate(12.25)); }}},
                 {{"b.evaluate(0.9)", [](void* o) { return std::to_string((int)static_cast<Two*>(o)->b.evaluate(0.9)); }}, {"b.evaluate(7.125)", [](void* o) { return std::to_string((int)static_cast<Two*>(o)->b.evaluate(7.125)); }}},
                 {{"a.getReport()", [](void* o) { DiagnosticReport r = static_cast<Two*>(o)->a.getReport(); return rep(r); }}, {"b.getReport()", [](void* o) { DiagnosticReport r = static_cast<Two*>(o)->b.getReport(); return rep(r); }}}};
    v.push_back(s);
  }
  add_checkup<CheckupEqualTo<double>>(v, "CheckupEqualTo: evaluator (evaluate,evaluate,timeout), reader (2 report copies)");
  add_checkup<CheckupGreaterThan<double>>(v, "CheckupGreaterThan: evaluator (evaluate,evaluate,timeout), reader (2 report copies)");
  add_checkup<CheckupLowerThan<double>>(v, "CheckupLowerThan: evaluator (evaluate,evaluate,timeout), reader (2 report copies)");
  { Scenario s; s.name = "CheckupReliability: evaluator (2 evaluates), reader (2 report copies)"; using T = CheckupReliability;
    s.make = []() { return sp(new T("rel", 0.3, 0.7)); };
    auto ev = [](double x) { return Scenario::Op{"evaluate(" + std::to_string(x).substr(0, 3) + ")", [x](void* o) { return std::to_string((int)static_cast<T*>(o)->evaluate(x)); }}; };
    Scenario::Op gr{"getReport()", [](void* o) { DiagnosticReport r = static_cast<T*>(o)->getReport(); return rep(r); }};
    s.threads = {{ev(0.1), ev(0.9)}, {gr, gr}}; v.push_back(s); }
  add_rate<CheckupEqualToRate>(v, "CheckupEqualToRate: data thread (3 stamps), heartbeat thread (2 heartbeats), reader (1 report copy)");
  add_rate<CheckupGreaterThanRate>(v, "CheckupGreaterThanRate: data thread (3 stamps), heartbeat thread (2 heartbeats), reader (1 report copy)");
  add_rate_stall<CheckupEqualToRate>(v, "CheckupEqualToRate: the sample that ends a 0.6 s stall || heartbeat at the same stamp || reader (2 report copies)");
  add_rate_stall<CheckupGreaterThanRate>(v, "CheckupGreaterThanRate: the sample that ends a 0.6 s stall || heartbeat at the same stamp || reader (2 report copies)");
  // RateMonitoring used on its own from several threads is not in the statement (it names shared variables, online statistics and
  // check-ups; the monitor is reached through the rate check-up, which serialises it): no stand-alone scenario.
  return v;
}

std::vector<Scenario> g_scn;
const std::vector<Scenario>& scn() { if (g_scn.empty()) g_scn = scenarios(); return g_scn; }

void die_deadlock(vf::Ctx& c, const Scenario& s, const Exec& x) {
  // the scenario threads are stuck for good: write the record where the driver collects violation files, then leave
  const char* out = getenv("VERIF_OUT");
  std::string rec = vf::JO().u("case", c.case_idx).str("site", "schedule.deadlock").raw("params", vf::JO().str("scenario", s.name).vec("schedule", x.choices).done()).raw("detail", "{}").str("outcome", "wrong").done();
  if (out) { std::string p = std::string(out) + "/viol.deadlock." + std::to_string((int)getpid()) + ".jsonl"; FILE* f = fopen(p.c_str(), "a"); if (f) { fprintf(f, "%s\n", rec.c_str()); fclose(f); } }
  fprintf(stderr, "DEADLOCK %s\n", rec.c_str());
  _exit(97);
}

// ---- exploration ------------------------------------------------------------------------------------------------------
void explore(vf::Ctx& c, const Scenario& s, int bound) {
  std::map<std::string, bool> lin_memo;
  std::set<std::string> outcomes;
  std::vector<uint64_t> per_bound(bound + 1, 0);
  uint64_t schedules = 0, lin_replays = 0, maxpoints = 0;
  std::vector<std::vector<int>> stack; stack.push_back({});
  std::vector<int> first_race, first_nonlin;
  while (!stack.empty()) {
    std::vector<int> prefix = stack.back(); stack.pop_back();
    Exec x = run_schedule(s, prefix);
    if (x.deadlock) die_deadlock(c, s, x);
    ++schedules; c.eval(); c.traces(); c.transitions(x.choices.size());
    maxpoints = std::max<uint64_t>(maxpoints, x.choices.size());
    int pre = 0; for (size_t j = 0; j < x.choices.size(); ++j) if (x.choices[j] != 0 && x.runningEnabled[j]) ++pre;
    per_bound[std::min(pre, bound)]++;
    if (pre > 0) c.nontrivial();
    std::string sig = hist_sig(x.hist);
    for (char ch : sig) c.obs((uint64_t)ch);
    std::string res; for (auto& r : x.hist) res += r.result + "/";
    outcomes.insert(res);
    std::string params = vf::JO().str("scenario", s.name).i("preemption_bound", bound).i("preemptions", pre).vec("schedule", x.choices).vec("thread_at_each_step", x.thread).done();
    if (x.diverged) c.violation("harness.replayDivergence", params, "{}");
    bool bad = false;
    if (x.races) {
      bad = true;
      if (first_race.empty()) { first_race = x.choices; c.violation("race", params, vf::JO().i("tsan_reports", x.races).raw("history", hist_json(x.hist)).done()); }
      else c.c.violations++;
    }
    auto it = lin_memo.find(sig);
    bool lin;
    if (it != lin_memo.end()) lin = it->second;
    else { LinCheck lc{s, x.hist, {}, std::vector<char>(x.hist.size(), 0)}; lin = lc.dfs(); lin_replays += lc.replays; lin_memo[sig] = lin; }
    if (!lin) {
      bad = true;
      if (first_nonlin.empty()) { first_nonlin = x.choices; c.violation("notLinearizable", params, vf::JO().raw("history", hist_json(x.hist)).done()); }
      else c.c.violations++;
    }
    if (bad && (x.choices == first_race || x.choices == first_nonlin)) {   // replay before report: same schedule, same observations
      Exec y = run_schedule(s, x.choices);
      if (y.deadlock) die_deadlock(c, s, y);
      if (hist_sig(y.hist) != sig || (y.races > 0) != (x.races > 0)) c.violation("harness.replayNotDeterministic", params, vf::JO().i("races_first", x.races).i("races_replay", y.races).done());
    }
    // children: alternatives at every point after the prefix, within the preemption bound
    int cost = 0;
    for (size_t i = 0; i < x.choices.size(); ++i) {
      if (i >= prefix.size()) {
        for (int alt = 1; alt < x.nenabled[i]; ++alt) {
          int cst = cost + (x.runningEnabled[i] ? 1 : 0);
          if (cst > bound) continue;
          std::vector<int> child(x.choices.begin(), x.choices.begin() + i); child.push_back(alt);
          stack.push_back(child);
        }
      }
      if (x.choices[i] != 0 && x.runningEnabled[i]) ++cost;
    }
    if (c.c.violations > 25) break;   // a broken scenario is broken: no need to format thousands of sanitizer reports
    if (schedules > 3000000) { c.violation("harness.scheduleExplosion", vf::JO().str("scenario", s.name).done(), "{}"); break; }
  }
  c.states(outcomes.size());
  c.note_max("schedules_in_largest_scenario", (double)schedules);
  c.note_max("scheduling_points_in_longest_execution", (double)maxpoints);
  c.note_max("distinct_outcomes_in_a_scenario", (double)outcomes.size());
  c.sample(vf::JO().str("scenario", s.name).i("preemption_bound", bound).u("schedules", schedules).vec("schedules_by_preemptions", per_bound).u("distinct_outcomes", outcomes.size()).u("distinct_histories", lin_memo.size()).u("sequential_replays_for_linearizability", lin_replays).u("max_scheduling_points", maxpoints).done());
}

// free-running pass: same thread bodies, no scheduler, real concurrency, ThreadSanitizer watching
void free_run(vf::Ctx& c, const Scenario& s, int rounds) {
  int races0 = vs_race_count();
  for (int r = 0; r < rounds; ++r) {
    std::shared_ptr<void> obj = s.make();
    std::vector<std::thread> th;
    for (size_t t = 0; t < s.threads.size(); ++t) th.emplace_back([&, t]() { for (auto& op : s.threads[t]) op.fn(obj.get()); });
    for (auto& t : th) t.join();
    c.eval(); c.traces();
  }
  int races = vs_race_count() - races0;
  if (races) c.violation("race.freeRunning", vf::JO().str("scenario", s.name).i("rounds", rounds).done(), vf::JO().i("tsan_reports", races).done());
  c.sample(vf::JO().str("scenario", s.name).str("mode", "free-running").i("rounds", rounds).i("tsan_reports", races).done());
}

}  // namespace

uint64_t vf_ncases(const std::string& tier) { return 2 * scn().size(); }

void vf_run(uint64_t idx, const std::string& tier, vf::Ctx& c) {
  size_t n = scn().size(); bool th = tier == "thorough";
  if (idx < n) explore(c, scn()[idx], th ? 3 : 2); else free_run(c, scn()[idx - n], th ? 2000 : 300);
}

std::string vf_case_params(uint64_t idx, const std::string& tier) { size_t n = scn().size(); return vf::JO().u("case", idx).str("scenario", scn()[idx % n].name).str("mode", idx < n ? "schedule exploration" : "free-running").done(); }

std::string vf_describe(const std::string& tier) {
  bool th = tier == "thorough"; vf::JO o; std::vector<std::string> names; for (auto& s : scn()) names.push_back(s.name);
  o.strs("scenarios", names).i("preemption_bound", th ? 3 : 2).i("free_running_rounds", th ? 2000 : 300);
  o.str("scheduling_points", "thread start, before every mutex lock, after every mutex unlock, before every atomic load/store (shim force-included into the unmodified sources)");
  o.str("oracle", "per schedule: no ThreadSanitizer report, no deadlock, call/return history linearizable w.r.t. the same object run sequentially (brute force over real-time-compatible orders), replay of a failing schedule reproduces it");
  o.str("memory_model", "sequentially consistent interleavings only");
  return o.done();
}

VF_MAIN()
