// C18 -- check-ups classify by their thresholds; statuses aggregate as a severity order; reports concatenate.
//  L: exhaustive lattices (thresholds x epsilon x values on / one ulp around each threshold; all status triples;
//     all status lists up to length 8, length-20 lists with <= 2 deviations; all pairs/triples of a report catalogue).
//  S: every sequence of evaluate(v)/timeout() up to a depth on one check-up object (history replayed on a fresh object),
//     report compared with a 10-line model after every step.
#include <romea_core_common/diagnostic/CheckupEqualTo.hpp>
#include <romea_core_common/diagnostic/CheckupGreaterThan.hpp>
#include <romea_core_common/diagnostic/CheckupLowerThan.hpp>
#include <romea_core_common/diagnostic/CheckupReliability.hpp>
#include <romea_core_common/geodesy/WGS84Coordinates.hpp>
#include "vrun.hpp"
#include <set>

const char* kProperty = "C18";
using namespace romea::core;

namespace {

const char* sname(DiagnosticStatus s) { switch (s) { case DiagnosticStatus::OK: return "OK"; case DiagnosticStatus::WARN: return "WARN"; case DiagnosticStatus::ERROR: return "ERROR"; default: return "STALE"; } }
template <class T> std::string printed(const T& v) { std::ostringstream os; os << v; return os.str(); }

struct Want { DiagnosticStatus st; std::string verdict; };
// kind 0 equal-to, 1 greater-than, 2 lower-than ; exact arithmetic in long double (operands are dyadic / small integers)
template <class T> Want model(int kind, T target, T eps, T value) {
  long double t = target, e = eps, v = value;
  if (kind == 0) {
    if (v >= t - e && v <= t + e) return {DiagnosticStatus::OK, " is OK."};   // == |v-t|<=e; t-e, t+e exact (dyadic operands)
    return {DiagnosticStatus::ERROR, v < t ? " is too low." : " is too high."};
  }
  if (kind == 1) return v > t - e ? Want{DiagnosticStatus::OK, " is OK."} : Want{DiagnosticStatus::ERROR, " is too low."};
  return v < t + e ? Want{DiagnosticStatus::OK, " is OK."} : Want{DiagnosticStatus::ERROR, " is too high."};
}

template <class T> std::unique_ptr<Checkup<T>> make(int kind, const std::string& name, T target, T eps) {
  if (kind == 0) return std::make_unique<CheckupEqualTo<T>>(name, target, eps);
  if (kind == 1) return std::make_unique<CheckupGreaterThan<T>>(name, target, eps);
  return std::make_unique<CheckupLowerThan<T>>(name, target, eps);
}
const char* kKind[] = {"CheckupEqualTo", "CheckupGreaterThan", "CheckupLowerThan", "CheckupReliability"};

// compare a report with (status, message, info)
bool report_is(vf::Ctx& c, const DiagnosticReport& r, const std::string& name, DiagnosticStatus st, const std::string& msg,
               const std::string& info, const std::string& site, const std::string& params) {
  c.obs((uint64_t)r.diagnostics.size()); c.obs((uint64_t)r.info.size());
  std::string gotmsg = r.diagnostics.empty() ? "<none>" : r.diagnostics.front().message;
  std::string gotinfo = r.info.count(name) ? r.info.at(name) : "<missing>";
  DiagnosticStatus gs = r.diagnostics.empty() ? DiagnosticStatus::OK : r.diagnostics.front().status;
  c.obs((uint64_t)gs); for (char ch : gotmsg) c.obs((uint64_t)ch); for (char ch : gotinfo) c.obs((uint64_t)ch);
  if (r.diagnostics.size() != 1 || r.info.size() != 1 || gs != st || gotmsg != msg || gotinfo != info) {
    c.violation(site, params, vf::JO().str("status", sname(gs)).str("message", gotmsg).str("info", gotinfo)
                .str("want_status", sname(st)).str("want_message", msg).str("want_info", info)
                .u("n_diagnostics", r.diagnostics.size()).u("n_info", r.info.size()).done());
    return false;
  }
  return true;
}

template <class T> std::vector<T> values_around(T target, T eps) {
  std::set<T> s;
  std::vector<long double> th = {(long double)target - eps, (long double)target + eps, (long double)target};
  for (long double x : th) {
    T b = (T)x; s.insert(b);
    if constexpr (std::is_floating_point<T>::value) {
      s.insert(std::nextafter(b, (T)1e30)); s.insert(std::nextafter(b, (T)-1e30));
      s.insert(b + (T)0.0625); s.insert(b - (T)0.0625);
    } else { s.insert(b + 1); s.insert(b - 1); }
  }
  for (T f : {(T)0, (T)1000000, (T)-1000000, (T)3}) s.insert(f);
  if constexpr (std::is_floating_point<T>::value) { s.insert((T)1.23456789); s.insert((T)0.899999999); s.insert((T)-123456.789); }   // more significant digits than the default stream precision
  return std::vector<T>(s.begin(), s.end());
}

template <class T> void thresholds(vf::Ctx& c, const char* tname, int kind, T target, T eps) {
  std::string name = "qty";
  auto vals = values_around<T>(target, eps);
  auto reused = make<T>(kind, name, target, eps);
  for (T v : vals) {
    for (int reuse = 0; reuse < 2; ++reuse) {
      auto fresh = make<T>(kind, name, target, eps);
      Checkup<T>* k = reuse ? reused.get() : fresh.get();
      DiagnosticStatus got = k->evaluate(v);
      Want w = model<T>(kind, target, eps, v);
      c.eval();
      long double d = kind == 0 ? fabsl(fabsl((long double)v - target) - eps) : kind == 1 ? fabsl((long double)v - ((long double)target - eps)) : fabsl((long double)v - ((long double)target + eps));
      if (d <= 1e-9L * (1 + fabsl((long double)target))) c.nontrivial();
      std::string params = vf::JO().str("checkup", kKind[kind]).str("type", tname).num("target", target).num("epsilon", eps).num("value", v).b("reused_object", reuse).done();
      if (got != w.st) c.violation(std::string(kKind[kind]) + ".evaluate.returnedStatus", params, vf::JO().str("got", sname(got)).str("want", sname(w.st)).done());
      report_is(c, k->getReport(), name, w.st, name + w.verdict, printed(v), std::string(kKind[kind]) + ".getReport", params);
      if (c.want_sample()) c.sample(params);
    }
  }
}

void reliability(vf::Ctx& c, double lo, double hi) {
  std::set<double> s;
  for (double b : {lo, hi}) { s.insert(b); s.insert(std::nextafter(b, 10.0)); s.insert(std::nextafter(b, -10.0)); s.insert(b + 0.0625); s.insert(b - 0.0625); }
  s.insert(0); s.insert(1); s.insert(-1); s.insert(2);
  CheckupReliability reused("rel", lo, hi);
  for (double v : s) for (int reuse = 0; reuse < 2; ++reuse) {
    CheckupReliability fresh("rel", lo, hi);
    CheckupReliability& k = reuse ? reused : fresh;
    DiagnosticStatus got = k.evaluate(v);
    DiagnosticStatus want = v < lo ? DiagnosticStatus::ERROR : v < hi ? DiagnosticStatus::WARN : DiagnosticStatus::OK;
    const char* verdict = v < lo ? " is too low." : v < hi ? " is uncertain." : " is high.";
    c.eval(); if (std::fabs(v - lo) < 1e-12 || std::fabs(v - hi) < 1e-12) c.nontrivial();
    std::string params = vf::JO().str("checkup", "CheckupReliability").num("low", lo).num("high", hi).num("value", v).b("reused_object", reuse).done();
    if (got != want) c.violation("CheckupReliability.evaluate.returnedStatus", params, vf::JO().str("got", sname(got)).str("want", sname(want)).done());
    report_is(c, k.getReport(), "rel", want, std::string("rel") + verdict, printed(v), "CheckupReliability.getReport", params);
  }
}

DiagnosticStatus S(int i) { return (DiagnosticStatus)i; }

void algebra(vf::Ctx& c) {
  for (int a = 0; a < 4; ++a) for (int b = 0; b < 4; ++b) for (int d = 0; d < 4; ++d) {
    c.eval(); c.nontrivial();
    std::string params = vf::JO().str("a", sname(S(a))).str("b", sname(S(b))).str("c", sname(S(d))).done();
    DiagnosticStatus ab = worse(S(a), S(b));
    if ((int)ab != std::max(a, b)) c.violation("worse.max", params, vf::JO().str("got", sname(ab)).done());
    if (ab != worse(S(b), S(a))) c.violation("worse.commutative", params, "{}");
    if (worse(worse(S(a), S(b)), S(d)) != worse(S(a), worse(S(b), S(d)))) c.violation("worse.associative", params, "{}");
    if (worse(S(a), S(a)) != S(a)) c.violation("worse.idempotent", params, "{}");
    c.obs((uint64_t)ab);
  }
}

void check_list(vf::Ctx& c, const std::vector<int>& l) {
  std::list<Diagnostic> d; int mx = 0; bool ok = true;
  for (int s : l) { d.push_back(Diagnostic(S(s), "m")); mx = std::max(mx, s); if (s != 0) ok = false; }
  c.eval();
  bool mixed = false; for (int s : l) if (s != l[0]) mixed = true;
  if (mixed) c.nontrivial();
  DiagnosticStatus w = worseStatus(d); bool a = allOK(d);
  c.obs((uint64_t)w); c.obs((uint64_t)a);
  if ((int)w != mx) c.violation("worseStatus", vf::JO().vec("statuses", l).done(), vf::JO().str("got", sname(w)).str("want", sname(S(mx))).done());
  if (a != ok) c.violation("allOK", vf::JO().vec("statuses", l).done(), vf::JO().b("got", a).b("want", ok).done());
}

void lists_upto(vf::Ctx& c, int len) {
  uint64_t n = 1; for (int i = 0; i < len; ++i) n *= 4;
  for (uint64_t k = 0; k < n; ++k) { std::vector<int> l(len); uint64_t r = k; for (int i = 0; i < len; ++i) { l[i] = r % 4; r /= 4; } check_list(c, l); }
}
void lists20(vf::Ctx& c, int base) {
  std::vector<int> l(20, base); check_list(c, l);
  for (int i = 0; i < 20; ++i) for (int s = 0; s < 4; ++s) { if (s == base) continue; auto m = l; m[i] = s; check_list(c, m);
    for (int j = i + 1; j < 20; ++j) for (int t = 0; t < 4; ++t) { if (t == base) continue; auto m2 = m; m2[j] = t; check_list(c, m2); } }
}

std::vector<DiagnosticReport> catalogue() {
  std::vector<DiagnosticReport> v(6);
  v[1].diagnostics = {Diagnostic(S(0), "a ok")}; v[1].info = {{"a", "1"}};
  v[2].diagnostics = {Diagnostic(S(2), "b bad"), Diagnostic(S(1), "b warn")}; v[2].info = {{"b", "2"}, {"c", "3"}};
  v[3].diagnostics = {Diagnostic(S(3), "a stale")}; v[3].info = {{"a", "9"}};                   // collides with v[1]
  v[4].diagnostics = {}; v[4].info = {{"z", ""}, {"b", "7"}};                                   // collides with v[2]
  v[5].diagnostics = {Diagnostic(S(0), "d"), Diagnostic(S(0), "d"), Diagnostic(S(3), "e")}; v[5].info = {};
  return v;
}
void plus_equals(vf::Ctx& c) {
  auto cat = catalogue();
  auto check = [&](const std::vector<int>& ix) {
    DiagnosticReport acc = cat[ix[0]];
    std::vector<Diagnostic> want(cat[ix[0]].diagnostics.begin(), cat[ix[0]].diagnostics.end());
    for (size_t k = 1; k < ix.size(); ++k) { acc += cat[ix[k]]; want.insert(want.end(), cat[ix[k]].diagnostics.begin(), cat[ix[k]].diagnostics.end()); }
    c.eval(); c.nontrivial();
    std::string params = vf::JO().vec("catalogue_indexes", ix).done();
    bool ok = acc.diagnostics.size() == want.size();
    size_t i = 0; for (auto& d : acc.diagnostics) { if (!ok) break; if (d.status != want[i].status || d.message != want[i].message) ok = false; ++i; }
    if (!ok) c.violation("DiagnosticReport.operator+=.diagnostics", params, vf::JO().u("got", acc.diagnostics.size()).u("want", want.size()).done());
    std::map<std::string, std::set<std::string>> allowed;
    for (int k : ix) for (auto& kv : cat[k].info) allowed[kv.first].insert(kv.second);
    bool iok = acc.info.size() == allowed.size();
    for (auto& kv : acc.info) if (!allowed.count(kv.first) || !allowed[kv.first].count(kv.second)) iok = false;
    if (!iok) c.violation("DiagnosticReport.operator+=.info", params, vf::JO().u("got_keys", acc.info.size()).u("want_keys", allowed.size()).done());
    c.obs((uint64_t)acc.diagnostics.size()); c.obs((uint64_t)acc.info.size());
  };
  for (int a = 0; a < 6; ++a) for (int b = 0; b < 6; ++b) { check({a, b}); for (int d = 0; d < 6; ++d) check({a, b, d}); }
}

// ---- S: sequences on one object ---------------------------------------------------------------------------------
struct MState { DiagnosticStatus st = DiagnosticStatus::STALE; std::string msg, info; };
void sequences(vf::Ctx& c, int kind, double target, double eps, int depth) {
  std::string name = "spd";
  std::vector<double> vals = {target, target - eps - 0.5, target + eps + 0.5, target - eps, target + eps, 0.0, -0.0, 1.23456789};   // +0.0 / -0.0 compare equal and print differently
  int nops = (int)vals.size() + (kind < 3 ? 1 : 0);   // reliability check-up has no timeout()
  std::set<std::string> states;
  uint64_t total = 1; for (int i = 0; i < depth; ++i) total *= nops;
  std::vector<int> seq(depth);
  for (uint64_t k = 0; k < total; ++k) {
    uint64_t r = k; for (int i = 0; i < depth; ++i) { seq[i] = r % nops; r /= nops; }
    std::unique_ptr<Checkup<double>> ck; std::unique_ptr<CheckupReliability> rel;
    if (kind < 3) ck = make<double>(kind, name, target, eps); else rel = std::make_unique<CheckupReliability>(name, target, target + eps);
    MState m;
    bool ok = true;
    for (int i = 0; i < depth && ok; ++i) {
      auto params = [&]() { std::vector<std::string> h; for (int j = 0; j <= i; ++j) h.push_back(seq[j] < (int)vals.size() ? "evaluate(" + printed(vals[seq[j]]) + ")" : "timeout()");
        return vf::JO().str("checkup", kKind[kind]).num("target", target).num("epsilon", eps).strs("history", h).done(); };
      DiagnosticStatus ret = DiagnosticStatus::STALE; bool isEval = seq[i] < (int)vals.size();
      if (isEval) {
        double v = vals[seq[i]];
        if (kind < 3) { ret = ck->evaluate(v); Want w = model<double>(kind, target, eps, v); m.st = w.st; m.msg = name + w.verdict; }
        else { ret = rel->evaluate(v); double lo = target, hi = target + eps; m.st = v < lo ? S(2) : v < hi ? S(1) : S(0); m.msg = name + (v < lo ? " is too low." : v < hi ? " is uncertain." : " is high."); }
        m.info = printed(v);
        if (ret != m.st) { c.violation(std::string(kKind[kind]) + ".evaluate.returnedStatus.sequence", params(), vf::JO().str("got", sname(ret)).str("want", sname(m.st)).done()); ok = false; }
      } else { ck->timeout(); m.st = DiagnosticStatus::STALE; m.msg = name + " timeout."; m.info = ""; }
      c.transitions(); c.eval(); if (i >= 1) c.nontrivial();
      DiagnosticReport rep = kind < 3 ? DiagnosticReport(ck->getReport()) : rel->getReport();
      if (!report_is(c, rep, name, m.st, m.msg, m.info, std::string(kKind[kind]) + ".getReport.sequence", params())) ok = false;
      states.insert(std::string(sname(m.st)) + "|" + m.msg + "|" + m.info);
      // a prefix shared with the previous sequence is re-executed on a fresh object: histories are replayed, never copied
    }
    c.traces();
    if (c.want_sample() && k == total / 2) { std::vector<int> s2(seq); c.sample(vf::JO().str("checkup", kKind[kind]).vec("op_indexes", s2).done()); }
    if (c.c.violations > 30) break;
  }
  c.states(states.size() + 1);
}

const double kT[] = {0, 0.125, -0.125, 1, -1, 1024, -1024};
const double kE[] = {0, 0.0009765625, 0.125, 1};
const int kTi[] = {-3, 0, 5};
const int kEi[] = {0, 1, 2};
const double kR[] = {0, 0.125, 0.5, 1};

struct Case { int kind, a, b, c; };
std::vector<Case> g_cases[2];
const std::vector<Case>& cases(bool th) {
  auto& v = g_cases[th];
  if (!v.empty()) return v;
  for (int k = 0; k < 3; ++k) for (int t = 0; t < 7; ++t) for (int e = 0; e < 4; ++e) v.push_back({0, k, t, e});
  for (int k = 0; k < 3; ++k) for (int t = 0; t < 3; ++t) for (int e = 0; e < 3; ++e) v.push_back({1, k, t, e});
  for (int l = 0; l < 4; ++l) for (int h = 0; h < 4; ++h) v.push_back({2, l, h, 0});   // incl. low > high (swapped configuration): ERROR below low comes first
  v.push_back({3, 0, 0, 0});
  for (int len = 1; len <= (th ? 10 : 8); ++len) v.push_back({4, len, 0, 0});
  for (int b = 0; b < 4; ++b) v.push_back({5, b, 0, 0});
  v.push_back({6, 0, 0, 0});
  for (int k = 0; k < 4; ++k) for (int t : {0, 3, 5}) for (int e : {0, 2}) v.push_back({7, k, t, e});
  return v;
}

}  // namespace

uint64_t vf_ncases(const std::string& tier) { return cases(tier == "thorough").size(); }

void vf_run(uint64_t idx, const std::string& tier, vf::Ctx& c) {
  bool th = tier == "thorough";
  {   // the thread first formats another library type through the same info helper (its printer sets the stream precision to 10): formatting state must not leak
    DiagnosticReport r; setReportInfo(r, "fix", makeWGS84Coordinates(0.799, 0.0538)); c.obs((uint64_t)r.info["fix"].size());
  }
  const Case& k = cases(th)[idx];
  switch (k.kind) {
    case 0: thresholds<double>(c, "double", k.a, kT[k.b], kE[k.c]); thresholds<float>(c, "float", k.a, (float)kT[k.b], (float)kE[k.c]); break;
    case 1: thresholds<int>(c, "int", k.a, kTi[k.b], kEi[k.c]); break;
    case 2: reliability(c, kR[k.a], kR[k.b]); break;
    case 3: algebra(c); break;
    case 4: lists_upto(c, k.a); break;
    case 5: lists20(c, k.a); break;
    case 6: plus_equals(c); break;
    case 7: sequences(c, k.a, kT[k.b], kE[k.c], th ? 7 : 5); break;
  }
}

std::string vf_describe(const std::string& tier) {
  bool th = tier == "thorough";
  vf::JO o;
  o.vec("targets", std::vector<double>(kT, kT + 7)).vec("epsilons", std::vector<double>(kE, kE + 4));
  o.str("values", "each of target-eps, target+eps, target: itself, both nextafter neighbours, +-1/16; far values 0, 3, +-1e6; double, float and int instantiations; fresh and reused object");
  o.str("status_algebra", "all 64 triples");
  o.str("lists", th ? "all lists of length 1..10; length-20 lists with <=2 deviations from each constant list" : "all lists of length 1..8 (87380); length-20 lists with <=2 deviations from each constant list");
  o.str("reports", "all pairs and triples from a catalogue of 6 reports (disjoint and colliding info keys, empty lists)");
  o.i("sequence_depth", th ? 7 : 5).str("sequence_ops", "evaluate(5 values on/around the thresholds, +0.0, -0.0, 1.23456789), timeout(); before every case the thread formats a WGS84Coordinates value through setReportInfo; 4 check-up kinds x 6 configurations; every sequence replayed on a fresh object");
  return o.done();
}

VF_MAIN()
