// C08 -- kd-tree nearest / k-nearest queries agree with exhaustive search.
//  small scope : every multiset of 1..5 points of a 3x3 (2D) / 2x2x2 (3D) lattice, index rebuilt at leaf sizes 1, 2, 10,
//                queries on a half-step lattice and far outside, every k <= n.
//  structured  : lattices up to 5000 points, collinear / coplanar, duplicates, two clusters at the shipped leaf size,
//                queries on lattice points, half steps and 1e6 away, every k in 1..min(n,50); all eight point types.
#include <romea_core_common/pointset/KdTree.hpp>
#include "vrun.hpp"

const char* kProperty = "C08";
using namespace romea::core;

namespace {

template <class PT> PT mk(std::initializer_list<double> v) { PT p = PT::Zero(); int i = 0; for (double x : v) { if (i < PointTraits<PT>::DIM) p[i] = (typename PT::Scalar)x; ++i; } if (PointTraits<PT>::SIZE > PointTraits<PT>::DIM) p[PointTraits<PT>::SIZE - 1] = 1; return p; }
template <class PT> std::string pj(const PT& p) { std::vector<long double> v; for (int i = 0; i < PointTraits<PT>::DIM; ++i) v.push_back(p[i]); return vf::jarr(v); }
template <class S> S ulp(S x) { x = std::fabs(x); return std::nextafter(x, std::numeric_limits<S>::infinity()) - x; }

template <class PT> void rebuild(KdTree<PT>& t, int leaf) {
  using Idx = typename NanoFlannAdaptor<PT, nanoflann::metric_L2>::Index;
  t.kdtree_.index.reset(new Idx(PointTraits<PT>::DIM, t.kdtree_, nanoflann::KDTreeSingleIndexAdaptorParams(leaf)));
  t.kdtree_.index->buildIndex();
}

// one query, all k in klist, against brute force in the same scalar type
template <class PT> bool check_query(vf::Ctx& c, const KdTree<PT>& tree, const PointSet<PT>& pts, const PT& q, size_t kmax, const std::string& what, const char* tname) {
  using S = typename PT::Scalar;
  size_t n = pts.size();
  std::vector<S> brute(n);
  for (size_t i = 0; i < n; ++i) { S d = 0; for (int k = 0; k < PointTraits<PT>::SIZE; ++k) { S e = q[k] - pts[i][k]; d += e * e; } brute[i] = d; }
  std::vector<S> sorted = brute; std::sort(sorted.begin(), sorted.end());
  auto params = [&](size_t k) { return vf::JO().str("type", tname).str("set", what).u("n", n).raw("query", pj(q)).u("k", k).done(); };
  S tolrel = 4 * std::numeric_limits<S>::epsilon();
  bool ok = true;
  // single nearest neighbour
  {
    size_t idx = (size_t)-1; S d = -1;
    tree.findNearestNeighbor(q, idx, d);
    c.eval(); c.obs((double)d);
    if (!(idx < n) || std::fabs(d - brute[idx < n ? idx : 0]) > tolrel * sorted[0] + std::numeric_limits<S>::min() || std::fabs(d - sorted[0]) > tolrel * sorted[0] + std::numeric_limits<S>::min()) {
      c.violation("KdTree.findNearestNeighbor", params(1), vf::JO().u("index", idx).num("distance", d).num("minimal", sorted[0]).done()); ok = false;
    }
  }
  std::vector<std::vector<size_t>> ascIdx(kmax + 1); std::vector<std::vector<S>> ascD(kmax + 1);
  for (size_t k = 1; k <= kmax && ok; ++k) {
    std::vector<size_t> idx(k, (size_t)-1); std::vector<S> d(k, (S)-1);
    tree.findNearestNeighbors(q, k, idx, d);
    ascIdx[k] = idx; ascD[k] = d;
    c.eval(); if (k > 1) c.nontrivial();
    bool good = true; std::string why;
    std::vector<size_t> seen = idx; std::sort(seen.begin(), seen.end());
    for (size_t j = 0; j < k && good; ++j) {
      c.obs((double)d[j]);
      if (!(idx[j] < n)) { good = false; why = "index out of range"; break; }
      if (j && seen[j] == seen[j - 1]) { good = false; why = "duplicate index"; break; }
      S t = tolrel * sorted[j] + std::numeric_limits<S>::min();
      if (std::fabs(d[j] - sorted[j]) > t) { good = false; why = "distance is not the j-th smallest"; }
      if (std::fabs(d[j] - brute[idx[j]]) > t) { good = false; why = "reported distance does not match the indexed point"; }
      if (j && d[j] < d[j - 1]) { good = false; why = "not ascending"; }
    }
    if (!good) { c.violation("KdTree.findNearestNeighbors", params(k), vf::JO().str("why", why).vec("indexes", idx).vec("distances", d).vec("k_smallest", std::vector<S>(sorted.begin(), sorted.begin() + k)).done()); ok = false; }
  }
  // k-nearest, closest-point, k-nearest again with the SAME k (for a few k)
  for (size_t k : {(size_t)2, kmax / 2 + 1, kmax}) if (ok && k >= 1 && k <= kmax) {
    std::vector<size_t> i1(k, (size_t)-1), i2(k, (size_t)-1); std::vector<S> d1(k, (S)-1), d2(k, (S)-1); size_t si = 0; S sd = 0;
    tree.findNearestNeighbors(q, k, i1, d1); tree.findNearestNeighbor(q, si, sd); tree.findNearestNeighbors(q, k, i2, d2);
    c.eval();
    if (i1 != ascIdx[k] || d1 != ascD[k] || i2 != ascIdx[k] || d2 != ascD[k]) { c.violation("KdTree.findNearestNeighbors.dependsOnHistory", params(k), vf::JO().str("history", "findNearestNeighbors(k); findNearestNeighbor; findNearestNeighbors(k)").vec("indexes", i2).vec("distances", d2).vec("indexes_first_pass", ascIdx[k]).done()); ok = false; }
  }
  // the same queries in descending order of k, then the single query again: a query must not depend on the queries before it
  for (size_t k = kmax; k >= 1 && ok; --k) {
    std::vector<size_t> idx(k, (size_t)-1); std::vector<S> d(k, (S)-1);
    tree.findNearestNeighbors(q, k, idx, d);
    c.eval();
    if (idx != ascIdx[k] || d != ascD[k]) { c.violation("KdTree.findNearestNeighbors.dependsOnHistory", params(k), vf::JO().vec("indexes", idx).vec("distances", d).vec("indexes_ascending_pass", ascIdx[k]).vec("distances_ascending_pass", ascD[k]).done()); ok = false; }
  }
  if (ok) {
    size_t idx = (size_t)-1; S d = -1; tree.findNearestNeighbor(q, idx, d); c.eval();
    if (!(idx < n) || d != ascD[1][0]) { c.violation("KdTree.findNearestNeighbor.dependsOnHistory", params(1), vf::JO().u("index", idx).num("distance", d).num("first_answer", ascD[1][0]).done()); ok = false; }
  }
  return ok;
}

// ---- small scope ---------------------------------------------------------------------------------------------------
template <class PT> void small_scope(vf::Ctx& c, const char* tname, size_t block, size_t nblocks, bool th) {
  constexpr int DIM = PointTraits<PT>::DIM;
  std::vector<PT> lat;
  const int maxm = th ? 6 : 5;
  if (DIM == 2) for (int x = 0; x < 3; ++x) for (int y = 0; y < 3; ++y) lat.push_back(mk<PT>({(double)x, (double)y}));
  else for (int x = 0; x < 2; ++x) for (int y = 0; y < 2; ++y) for (int z = 0; z < 2; ++z) lat.push_back(mk<PT>({(double)x, (double)y, (double)z}));
  std::vector<PT> queries;
  std::vector<double> qs = DIM == 2 ? std::vector<double>{-0.5, 0, 0.5, 1, 1.5, 2.5} : std::vector<double>{-0.5, 0, 0.5, 1, 1.5};
  if (DIM == 2) { for (double x : qs) for (double y : qs) queries.push_back(mk<PT>({x, y})); queries.push_back(mk<PT>({1e6, 1e6})); queries.push_back(mk<PT>({-1e6, 0.5})); queries.push_back(mk<PT>({1.0, 1e6})); }
  else { for (double x : qs) for (double y : qs) for (double z : {-0.5, 0.5, 1.0}) queries.push_back(mk<PT>({x, y, z})); queries.push_back(mk<PT>({1e6, 1e6, 1e6})); queries.push_back(mk<PT>({0.5, -1e6, 0.5})); }
  // enumerate multisets (non-decreasing index tuples) of size 1..5
  size_t L = lat.size(), counter = 0;
  for (int m = 1; m <= maxm; ++m) {
    std::vector<size_t> t(m, 0);
    for (;;) {
      if (counter++ % nblocks == block) {
        PointSet<PT> pts; for (size_t i : t) pts.push_back(lat[i]);
        // also a permuted storage order (tie handling must not depend on it)
        for (int perm = 0; perm < 2; ++perm) {
          if (perm) std::reverse(pts.begin(), pts.end());
          KdTree<PT> tree(pts);
          for (int leaf : (th ? std::vector<int>{10, 1, 2, 3} : std::vector<int>{10, 1, 2})) {
            if (leaf != 10) rebuild(tree, leaf);
            std::string what = "multiset of lattice points " + vf::jarr(t) + (perm ? " reversed" : "") + " leaf=" + std::to_string(leaf);
            for (auto& q : queries) if (!check_query<PT>(c, tree, pts, q, pts.size(), what, tname)) break;
            if (c.c.violations > 20) return;
          }
        }
        if (c.want_sample()) c.sample(vf::JO().str("type", tname).str("explorer", "small scope").vec("lattice_indexes", t).done());
      }
      int i = m - 1; while (i >= 0 && t[i] == L - 1) --i;
      if (i < 0) break;
      ++t[i]; for (int j = i + 1; j < m; ++j) t[j] = t[i];
    }
  }
}

// ---- structured sets -----------------------------------------------------------------------------------------------
struct SetSpec { const char* name; int kind; int a, b, c; };
const SetSpec kSets[] = {
  {"single point", 0, 1, 1, 1}, {"line 1x2", 0, 2, 1, 1}, {"line 1x10", 0, 10, 1, 1}, {"line 1x11", 0, 11, 1, 1}, {"line 1x100", 0, 100, 1, 1}, {"line 1x5000", 0, 5000, 1, 1},
  {"grid 3x3", 0, 3, 3, 1}, {"grid 10x10", 0, 10, 10, 1}, {"grid 50x100", 0, 50, 100, 1}, {"grid 70x71", 0, 70, 71, 1}, {"grid 2x10 (x parity)", 3, 2, 10, 1},
  {"grid 5x5, each point 4 times", 1, 5, 5, 4}, {"20 identical points", 1, 1, 1, 20}, {"two clusters of 50, 1e-3 wide, 100 apart", 2, 50, 0, 0},
  {"box 5x5x5", 0, 5, 5, 5}, {"box 17x17x17", 0, 17, 17, 17}, {"plane 30x30 at z=2 (coplanar)", 4, 30, 30, 1},
};
const int kNSets = sizeof(kSets) / sizeof(kSets[0]);

template <class PT> void structured(vf::Ctx& c, const char* tname, int si, int off) {
  constexpr int DIM = PointTraits<PT>::DIM;
  const SetSpec& s = kSets[si];
  if (DIM == 2 && (s.c > 1 && s.kind == 0)) { c.trivial(); return; }
  if (DIM == 2 && s.kind == 4) { c.trivial(); return; }
  PointSet<PT> pts; std::vector<PT> queries;
  auto add_lattice = [&](int nx, int ny, int nz, int rep, double z0) {
    for (int r = 0; r < rep; ++r) for (int x = 0; x < nx; ++x) for (int y = 0; y < ny; ++y) for (int z = 0; z < (DIM == 3 ? nz : 1); ++z) pts.push_back(mk<PT>({0.25 * x - 3, 0.25 * y + 1, 0.25 * z + z0}));
    int sx = std::max(1, nx / 6), sy = std::max(1, ny / 6), sz = std::max(1, nz / 3);
    for (int x = 0; x < nx; x += sx) for (int y = 0; y < ny; y += sy) for (int z = 0; z < (DIM == 3 ? nz : 1); z += sz) { queries.push_back(mk<PT>({0.25 * x - 3, 0.25 * y + 1, 0.25 * z + z0})); queries.push_back(mk<PT>({0.25 * x - 3 + 0.125, 0.25 * y + 1 + 0.125, 0.25 * z + z0 + 0.125})); }
    for (double f : {1e6, -1e6}) { queries.push_back(mk<PT>({f, 1.0, 0.0})); queries.push_back(mk<PT>({-3.0, f, 0.3})); queries.push_back(mk<PT>({f, f, f})); queries.push_back(mk<PT>({0.25 * (nx / 2) - 3 + 0.01, f, f})); }
    // just outside the bounding box on each side, level with a point row (pruning bounds)
    queries.push_back(mk<PT>({0.25 * nx - 3 + 2.0, 0.25 * (ny / 2) + 1 + 0.06, z0})); queries.push_back(mk<PT>({-3 - 2.0, 0.25 * (ny / 2) + 1 + 0.06, z0}));
    queries.push_back(mk<PT>({0.25 * (nx / 2) - 3 + 0.06, 0.25 * ny + 1 + 2.0, z0})); queries.push_back(mk<PT>({0.25 * (nx / 2) - 3 + 0.06, 1 - 2.0, z0 + 0.06}));
  };
  if (s.kind == 0) add_lattice(s.a, s.b, s.c, 1, 0);
  else if (s.kind == 1) add_lattice(s.a, s.b, 1, s.c, 0);
  else if (s.kind == 2) { for (int i = 0; i < s.a; ++i) { pts.push_back(mk<PT>({1e-3 * ((i * 7) % 50) / 50.0, 1e-3 * ((i * 11) % 50) / 50.0, 1e-3 * ((i * 3) % 50) / 50.0})); pts.push_back(mk<PT>({100 + 1e-3 * ((i * 13) % 50) / 50.0, 1e-3 * ((i * 17) % 50) / 50.0, 0})); } queries = {mk<PT>({0, 0, 0}), mk<PT>({50, 0, 0}), mk<PT>({49.99999, 0.1, 0}), mk<PT>({100, 0, 0}), mk<PT>({5e-4, 5e-4, 5e-4}), mk<PT>({1e6, 0, 0}), mk<PT>({-1e6, 3, 0}), mk<PT>({50, 1e6, 0})}; }
  else if (s.kind == 3) { for (int i = 0; i < 20; ++i) pts.push_back(mk<PT>({(double)(i % 2), (double)i, 0})); for (double y : {-3.0, 0.0, 4.5, 9.75, 19.0, 25.0}) for (double x : {-5.0, 0.0, 0.5, 1.0, 11.0, 1000.0}) queries.push_back(mk<PT>({x, y, 0})); }
  else add_lattice(s.a, s.b, 1, 1, 2.0);
  if (off) {   // the same set far from the origin (map coordinates): UTM-like for double, kilometre-scale for float; all values stay exactly representable
    const bool dbl = std::is_same<typename PT::Scalar, double>::value;
    const double O[3] = {dbl ? 706000.0 : 1000.0, dbl ? 5073000.0 : -2000.0, dbl ? 300.0 : 50.0};
    for (auto& p : pts) for (int d = 0; d < DIM; ++d) p[d] = (typename PT::Scalar)((double)p[d] + O[d]);
    for (auto& q : queries) for (int d = 0; d < DIM; ++d) q[d] = (typename PT::Scalar)((double)q[d] + O[d]);
  }
  KdTree<PT> tree(pts);
  // a second tree of the same point type on another set, asked the bit-identical query right after the first one (state shared between trees)
  PointSet<PT> ptsB; for (size_t i = 0; i < pts.size(); i += 2) { PT p = pts[i]; p[0] = (typename PT::Scalar)((double)p[0] + 0.375); ptsB.push_back(p); }
  KdTree<PT> treeB(ptsB);
  size_t kmax = std::min<size_t>(pts.size(), 50);
  std::string what = std::string(s.name) + (off ? " (translated far from the origin)" : "");
  for (auto& q : queries) {
    if (!check_query<PT>(c, tree, pts, q, kmax, what, tname)) break;
    size_t ia = 0, ib = 0; typename PT::Scalar da = -1, db = -1; tree.findNearestNeighbor(q, ia, da); treeB.findNearestNeighbor(q, ib, db);
    typename PT::Scalar best = std::numeric_limits<typename PT::Scalar>::max(); for (auto& p : ptsB) { typename PT::Scalar d = 0; for (int k = 0; k < PointTraits<PT>::SIZE; ++k) { typename PT::Scalar e = q[k] - p[k]; d += e * e; } best = std::min(best, d); }
    c.eval();
    if (!(ib < ptsB.size()) || std::fabs(db - best) > 4 * std::numeric_limits<typename PT::Scalar>::epsilon() * best + std::numeric_limits<typename PT::Scalar>::min()) { c.violation("KdTree.findNearestNeighbor.dependsOnOtherTrees", vf::JO().str("type", tname).str("set", what).raw("query", pj(q)).done(), vf::JO().u("index", ib).num("distance", db).num("minimal_in_second_set", best).done()); break; }
  }
  if (c.want_sample()) c.sample(vf::JO().str("type", tname).str("explorer", "structured").str("set", s.name).u("points", pts.size()).u("queries", queries.size()).done());
}

const char* kTypes[] = {"Vector2d", "Vector2f", "Homogeneous2d", "Homogeneous2f", "Vector3d", "Vector3f", "Homogeneous3d", "Homogeneous3f"};
const int kSmallBlocks = 24;

}  // namespace

uint64_t vf_ncases(const std::string& tier) { return 8 * kSmallBlocks + 16 * kNSets; }

void vf_run(uint64_t idx, const std::string& tier, vf::Ctx& c) {
  if (idx < 8 * kSmallBlocks) {
    int t = idx / kSmallBlocks; size_t b = idx % kSmallBlocks;
    switch (t) {
      case 0: small_scope<Eigen::Vector2d>(c, kTypes[0], b, kSmallBlocks, tier == "thorough"); break; case 1: small_scope<Eigen::Vector2f>(c, kTypes[1], b, kSmallBlocks, tier == "thorough"); break;
      case 2: small_scope<HomogeneousCoordinates2d>(c, kTypes[2], b, kSmallBlocks, tier == "thorough"); break; case 3: small_scope<HomogeneousCoordinates2f>(c, kTypes[3], b, kSmallBlocks, tier == "thorough"); break;
      case 4: small_scope<Eigen::Vector3d>(c, kTypes[4], b, kSmallBlocks, tier == "thorough"); break; case 5: small_scope<Eigen::Vector3f>(c, kTypes[5], b, kSmallBlocks, tier == "thorough"); break;
      case 6: small_scope<HomogeneousCoordinates3d>(c, kTypes[6], b, kSmallBlocks, tier == "thorough"); break; default: small_scope<HomogeneousCoordinates3f>(c, kTypes[7], b, kSmallBlocks, tier == "thorough");
    }
  } else {
    int k = (int)idx - 8 * kSmallBlocks; int off = k / (8 * kNSets); k %= 8 * kNSets; int t = k / kNSets, si = k % kNSets;
    switch (t) {
      case 0: structured<Eigen::Vector2d>(c, kTypes[0], si, off); break; case 1: structured<Eigen::Vector2f>(c, kTypes[1], si, off); break;
      case 2: structured<HomogeneousCoordinates2d>(c, kTypes[2], si, off); break; case 3: structured<HomogeneousCoordinates2f>(c, kTypes[3], si, off); break;
      case 4: structured<Eigen::Vector3d>(c, kTypes[4], si, off); break; case 5: structured<Eigen::Vector3f>(c, kTypes[5], si, off); break;
      case 6: structured<HomogeneousCoordinates3d>(c, kTypes[6], si, off); break; default: structured<HomogeneousCoordinates3f>(c, kTypes[7], si, off);
    }
  }
}

std::string vf_case_params(uint64_t idx, const std::string& tier) {
  if (idx < 8 * kSmallBlocks) return vf::JO().u("case", idx).str("explorer", "small scope").str("type", kTypes[idx / kSmallBlocks]).done();
  int k = (int)idx - 8 * kSmallBlocks; int off = k / (8 * kNSets); k %= 8 * kNSets; return vf::JO().u("case", idx).str("explorer", "structured").str("type", kTypes[k / kNSets]).str("set", kSets[k % kNSets].name).b("translated", off).done();
}

std::string vf_describe(const std::string& tier) {
  vf::JO o;
  o.str("small_scope_thorough", "multisets up to 6 points, leaf sizes 10, 1, 2, 3");
  o.str("small_scope", "every multiset of 1..5 points of the 3x3 lattice (2D types, 2001 sets) / 2x2x2 lattice (3D types, 1286 sets), stored in both orders, index at leaf sizes 10, 1, 2; queries on {-0.5,0,0.5,1,1.5,2.5}^2 (3D: {-0.5..1.5}^2 x {-0.5,0.5,1}) plus 1e6 away; every k<=n");
  std::vector<std::string> names; for (auto& s : kSets) names.push_back(s.name);
  o.strs("structured_sets", names);
  o.str("structured_sets_translated", "every structured set a second time translated by (706000, 5073000, 300) for double types and (1000, -2000, 50) for float types (all coordinates remain exactly representable)");
  o.str("structured_queries", "lattice points (strided), half steps, +-1e6 along one / all axes, 2 units outside each side of the bounding box; every k in 1..min(n,50); leaf size 10");
  o.str("oracle", "brute force in the same scalar type: reported distances equal the k smallest (ascending, 4 eps relative), each matches its indexed point, indexes in range and distinct; after the ascending pass over k the same queries in descending order and the single query again, bit-equal to the first answers; a second tree of the same type on a shifted half of the set is asked the bit-identical single query right after the first tree");
  return o.done();
}

VF_MAIN()
