// C12 -- analytic derivatives and propagated covariances match the maps they describe.
//  A: SmartRotation3D derivative matrices vs Richardson-extrapolated central differences of the library's own R().
//  B: covariance of a rigidly transformed Pose3D vs J_fd C J_fd^T, J_fd from central differences of the library's own operator*.
//  C: LeastSquares::computeEstimateCovariance vs sigma^2 A (J^T J)^-1 A^T computed in long double.
#include <romea_core_common/transform/SmartRotation3D.hpp>
#include <romea_core_common/geometry/Pose3D.hpp>
#include <romea_core_common/regression/leastsquares/LeastSquares.hpp>
#include <romea_core_common/math/EulerAngles.hpp>
#include "vrun.hpp"
#include <Eigen/Dense>

const char* kProperty = "C12";
using namespace romea::core;
using M3 = Eigen::Matrix3d; using V3 = Eigen::Vector3d; using M6 = Eigen::Matrix<double, 6, 6>;

namespace {

bool g_th = false;   // thorough tier: denser lattices

std::vector<double> rollyaw() { std::vector<double> v = {0, 0.3, -1.0, M_PI / 2, 2.0, -3.0, M_PI, 3.5, -5.5, 6.0}; if (g_th) for (double x : {1e-6, -0.3, 1.0, -M_PI / 2, -2.0, 3.0, -M_PI, -3.5, 4.7, 5.5, -6.0, 6.28}) v.push_back(x); return v; }
std::vector<double> pitches() { std::vector<double> v = {0, 0.2, -0.7, 1.2, -1.5, M_PI / 2 - 0.05, -(M_PI / 2 - 0.05)}; if (g_th) for (double x : {1e-6, -0.2, 0.7, -1.2, 1.5, 0.45, -0.95}) v.push_back(x); return v; }

M3 Rof(double r, double p, double y) { return SmartRotation3D(r, p, y).R(); }
// Richardson-extrapolated central difference of the library's own R() wrt angle k
M3 fdR(const V3& a, int k) {
  auto cd = [&](double h) { V3 p = a, m = a; p[k] += h; m[k] -= h; return ((Rof(p[0], p[1], p[2]) - Rof(m[0], m[1], m[2])) / (2 * h)).eval(); };
  double h = 1e-4; return (4 * cd(h / 2) - cd(h)) / 3;
}

void derivatives(vf::Ctx& c, double roll) {
  const char* names[3] = {"dRdAngleAroundXAxis", "dRdAngleAroundYAxis", "dRdAngleAroundZAxis"};
  std::vector<V3> vecs = {{1, 0, 0}, {0, 1, 0}, {0, 0, 1}, {1, 2, 3}, {-1e3, 0.5, 7}};
  for (double pitch : pitches()) for (double yaw : rollyaw()) {
    V3 a(roll, pitch, yaw);
    SmartRotation3D s(a);
    M3 Rx = Eigen::AngleAxisd(roll, V3::UnitX()).toRotationMatrix(), Ry = Eigen::AngleAxisd(pitch, V3::UnitY()).toRotationMatrix(), Rz = Eigen::AngleAxisd(yaw, V3::UnitZ()).toRotationMatrix();
    M3 e1 = M3::Zero(), e2 = M3::Zero(), e3 = M3::Zero(); e1(0, 0) = 1; e2(1, 1) = 1; e3(2, 2) = 1;
    M3 stray[3] = {Rz * Ry * e1, Rz * e2 * Rx, e3 * Ry * Rx};   // what a leftover identity entry in the per-axis derivative contributes
    const M3* got[3] = {&s.dRdAngleAroundXAxis(), &s.dRdAngleAroundYAxis(), &s.dRdAngleAroundZAxis()};
    for (int k = 0; k < 3; ++k) {
      c.eval(); c.nontrivial();
      M3 fd = fdR(a, k);
      M3 res = *got[k] - fd;
      for (int i = 0; i < 9; ++i) c.obs((*got[k])(i / 3, i % 3));
      double tol = 1e-9;
      std::string params = vf::JO().num("roll", roll).num("pitch", pitch).num("yaw", yaw).str("matrix", names[k]).done();
      if (res.norm() > tol) {
        bool isStray = (res - stray[k]).norm() <= tol;
        c.violation(std::string("SmartRotation3D.") + names[k] + (isStray ? ".strayIdentityTerm" : ""), params,
                    vf::JO().num("residual_norm", res.norm()).num("residual_minus_stray_term_norm", (res - stray[k]).norm()).done());
      }
      c.note_max("derivative_residual_minus_stray", (res - stray[k]).norm());
    }
    // derivative of a rotated vector = derivative matrix times the vector
    for (auto& t : vecs) {
      M3 d = s.dRTdAngles(t);
      c.eval();
      for (int k = 0; k < 3; ++k) {
        if ((d.col(k) - (*got[k]) * t).norm() > 1e-12 * (1 + t.norm())) c.violation("SmartRotation3D.dRTdAngles.vsMatrixTimesVector", vf::JO().num("roll", roll).num("pitch", pitch).num("yaw", yaw).i("angle", k).done(), "{}");
        V3 fdv = fdR(a, k) * t;
        V3 res = d.col(k) - fdv;
        if (res.norm() > 1e-9 * (1 + t.norm())) {
          bool isStray = (res - stray[k] * t).norm() <= 1e-9 * (1 + t.norm());
          c.violation(std::string("SmartRotation3D.dRTdAngles") + (isStray ? ".strayIdentityTerm" : ""), vf::JO().num("roll", roll).num("pitch", pitch).num("yaw", yaw).i("angle", k).vec("vector", std::vector<double>{t[0], t[1], t[2]}).done(),
                      vf::JO().num("residual_norm", res.norm()).done());
        }
      }
    }
    if (c.want_sample()) c.sample(vf::JO().num("roll", roll).num("pitch", pitch).num("yaw", yaw).done());
  }
}


// ---- A2: one SmartRotation3D object through every sequence of init() calls and derivative reads, vs a fresh object -------
void derivative_sequences(vf::Ctx& c, int depth, int form, int firstOp) {
  std::vector<V3> A = {{0, 0, 0}, {0.7, -0.4, 2.1}, {-2.6, 1.2, -0.3}, {0.7, -0.4, -1.0}, {0, 0.9, 0}, {1e-7, -1.45, 3.1}};
  const int NI = (int)A.size(), NOPS = 2 * NI + 3;   // init(vector) x6, init(3 scalars) x6, read, assign to another long-lived object and continue with it, continue with a copy
  V3 t(1, -2, 3);
  auto same = [&](const SmartRotation3D& a, const SmartRotation3D& b) {
    return a.R() == b.R() && a.dRdAngleAroundXAxis() == b.dRdAngleAroundXAxis() && a.dRdAngleAroundYAxis() == b.dRdAngleAroundYAxis() && a.dRdAngleAroundZAxis() == b.dRdAngleAroundZAxis() && a.dRTdAngles(t) == b.dRTdAngles(t) && a * t == b * t;
  };
  {
    uint64_t total = 1; for (int i = 1; i < depth; ++i) total *= NOPS;
    std::vector<int> seq(depth); seq[0] = firstOp;
    for (uint64_t k = 0; k < total; ++k) {
      uint64_t r = k; for (int i = 1; i < depth; ++i) { seq[i] = r % NOPS; r /= NOPS; }
      SmartRotation3D obj0, obj1(A[1]), obj2(A[2][0], A[2][1], A[2][2]), spare(A[5]);
      (void)spare.dRdAngleAroundYAxis();
      SmartRotation3D* cur_ = form == 0 ? &obj0 : form == 1 ? &obj1 : &obj2; SmartRotation3D* other_ = &spare;
#define obj (*cur_)
      V3 cur = form == 0 ? V3(0, 0, 0) : A[form];
      bool inited = form != 0;   // the derivatives of a default-constructed, never initialised object are not specified
      for (int i = 0; i <= depth; ++i) {
        int op = i < depth ? seq[i] : 2 * NI;   // every sequence ends with a read
        c.transitions();
        if (op < NI) { obj.init(A[op]); cur = A[op]; inited = true; continue; }
        if (op < 2 * NI) { obj.init(A[op - NI][0], A[op - NI][1], A[op - NI][2]); cur = A[op - NI]; inited = true; continue; }
        if (op == 2 * NI + 1) { *other_ = *cur_; std::swap(cur_, other_); continue; }
        if (op == 2 * NI + 2) { SmartRotation3D cp(*cur_); *other_ = SmartRotation3D(A[3]); std::swap(cur_, other_); *cur_ = std::move(cp); continue; }   // copy-construct, then move-assign into the slot used from now on
        if (!inited) { (void)obj.dRdAngleAroundXAxis(); (void)obj.dRTdAngles(t); continue; }   // still read (a cache would be filled here)
        c.eval(); if (i) c.nontrivial();
        SmartRotation3D fresh(cur);
        for (int j = 0; j < 9; ++j) c.obs(obj.dRdAngleAroundZAxis()(j / 3, j % 3));
        if (!same(obj, fresh)) {
          std::vector<std::string> hs; hs.push_back(form == 0 ? "SmartRotation3D()" : form == 1 ? "SmartRotation3D(vector A1)" : "SmartRotation3D(A2 scalars)");
          for (int j = 0; j <= i && j < depth; ++j) { char b[64]; if (seq[j] < 2 * NI) snprintf(b, 64, "init(A%d%s)", seq[j] % NI, seq[j] < NI ? " vector" : " scalars"); else snprintf(b, 64, "%s", seq[j] == 2 * NI ? "read" : seq[j] == 2 * NI + 1 ? "other = object; continue with other" : "continue with a moved-in copy"); hs.push_back(b); }
          if (i == depth) hs.push_back("read");
          c.violation("SmartRotation3D.derivatives.dependOnHistory", vf::JO().strs("history", hs).vec("angles", std::vector<double>{cur[0], cur[1], cur[2]}).done(),
                      vf::JO().num("R_diff", (obj.R() - fresh.R()).norm()).num("dRdX_diff", (obj.dRdAngleAroundXAxis() - fresh.dRdAngleAroundXAxis()).norm()).num("dRdY_diff", (obj.dRdAngleAroundYAxis() - fresh.dRdAngleAroundYAxis()).norm()).num("dRdZ_diff", (obj.dRdAngleAroundZAxis() - fresh.dRdAngleAroundZAxis()).norm()).done());
          break;
        }
      }
#undef obj
      c.traces();
      if (c.c.violations > 30) return;
    }
  }
}


// one object re-initialised N times between two reads of the derivative matrices, for every N up to 600 and a few larger ones (counters that wrap)
void many_inits(vf::Ctx& c) {
  std::vector<int> counts; for (int n = 1; n <= 600; ++n) counts.push_back(n); for (int n : {1023, 1024, 1025, 4096, 65535, 65536, 65537}) counts.push_back(n);
  V3 t(1, -2, 3);
  for (int first = 0; first < 2; ++first) for (int n : counts) {
    SmartRotation3D obj(0.3, -0.2, 0.9);
    if (first) { (void)obj.dRdAngleAroundXAxis(); (void)obj.dRTdAngles(t); }   // with / without a first read
    V3 a;
    for (int i = 1; i <= n; ++i) { a = V3(0.3 + 0.001 * (i % 97), -0.2 + 0.002 * (i % 89), 0.9 - 0.0015 * (i % 83)); if (i % 2) obj.init(a); else obj.init(a[0], a[1], a[2]); }
    c.transitions(n); c.eval(); c.nontrivial();
    SmartRotation3D fresh(a);
    bool same = obj.R() == fresh.R() && obj.dRdAngleAroundXAxis() == fresh.dRdAngleAroundXAxis() && obj.dRdAngleAroundYAxis() == fresh.dRdAngleAroundYAxis() && obj.dRdAngleAroundZAxis() == fresh.dRdAngleAroundZAxis() && obj.dRTdAngles(t) == fresh.dRTdAngles(t);
    c.obs(obj.dRdAngleAroundZAxis()(0, 0));
    if (!same) { c.violation("SmartRotation3D.derivatives.dependOnHistory", vf::JO().str("explorer", "many inits").i("inits_between_reads", n).b("read_before", first).done(), vf::JO().num("dRdX_diff", (obj.dRdAngleAroundXAxis() - fresh.dRdAngleAroundXAxis()).norm()).num("R_diff", (obj.R() - fresh.R()).norm()).done()); break; }
  }
}

// ---- B: pose covariance ------------------------------------------------------------------------------------------
std::vector<M6> cov_catalogue() {
  std::vector<M6> v;
  std::vector<std::array<double, 6>> D = {{1, 1, 1, 1, 1, 1}, {4, 1, 0.25, 0.01, 0.02, 0.05}, {1, 0, 0, 0, 0, 0}, {0, 0, 0, 0.1, 0, 0}, {0, 0, 0, 0, 0.1, 0}, {0, 0, 0, 0, 0, 0.1}, {1e2, 1, 1e-4, 1e-4, 1e-2, 1}};
  for (int q = 0; q < 2; ++q) for (auto& d : D) {
    M6 Q = M6::Identity();
    if (q) for (int i = 0; i < 6; ++i) for (int j = i + 1; j < 6; ++j) { double a = 0.37 + 0.11 * i - 0.23 * j; M6 G = M6::Identity(); G(i, i) = std::cos(a); G(j, j) = std::cos(a); G(i, j) = -std::sin(a); G(j, i) = std::sin(a); Q = Q * G; }
    M6 Dm = M6::Zero(); for (int i = 0; i < 6; ++i) Dm(i, i) = d[i];
    M6 C = Q * Dm * Q.transpose(); v.push_back(((C + C.transpose()) / 2).eval());
  }
  return v;
}
std::vector<Eigen::Affine3d> transforms() {
  std::vector<Eigen::Affine3d> v;
  std::vector<M3> Rs = {M3::Identity(), Eigen::AngleAxisd(0.4, V3::UnitZ()).toRotationMatrix(), Eigen::AngleAxisd(-2.0, V3::UnitZ()).toRotationMatrix(), Eigen::AngleAxisd(0.5, V3::UnitX()).toRotationMatrix(),
                        Eigen::AngleAxisd(-0.6, V3::UnitY()).toRotationMatrix(), Eigen::AngleAxisd(-1.1, V3(1, 1, 0).normalized()).toRotationMatrix(), Eigen::AngleAxisd(2.7, V3(-2, 1, 3).normalized()).toRotationMatrix()};
  // the 24 rotations of the cube (signed permutation matrices: sensor mounting transforms; several have a roll-pitch-yaw pitch of exactly +-pi/2)
  { int perm[6][3] = {{0, 1, 2}, {0, 2, 1}, {1, 0, 2}, {1, 2, 0}, {2, 0, 1}, {2, 1, 0}};
    for (auto& pm : perm) for (int sg = 0; sg < 8; ++sg) { M3 M = M3::Zero(); for (int i = 0; i < 3; ++i) M(i, pm[i]) = (sg >> i) & 1 ? -1.0 : 1.0; if (M.determinant() > 0) Rs.push_back(M); } }
  // nearly planar / nearly identity transforms: a yaw composed with a tilt of 1e-9 ... 1e-2 rad, and tiny rotations about a generic axis
  for (double tilt : {1e-9, 1e-6, 3e-4, 8e-4, 1e-2}) Rs.push_back((Eigen::AngleAxisd(0.4, V3::UnitZ()) * Eigen::AngleAxisd(tilt, V3(1, 0.5, 0).normalized())).toRotationMatrix());
  for (double ang : {1e-7, 2e-4}) Rs.push_back(Eigen::AngleAxisd(ang, V3(-2, 1, 3).normalized()).toRotationMatrix());
  for (auto& R : Rs) for (auto t : {V3(0, 0, 0), V3(0.3, -1.2, 2)}) { Eigen::Affine3d T = Eigen::Affine3d::Identity(); T.linear() = R; T.translation() = t; v.push_back(T); }
  return v;
}
std::vector<V3> attitudes() { std::vector<V3> v; std::vector<double> rs = {0.0, 0.7, -2.5}, ps = {0.0, 0.3, -1.2, 1.4, 2.5, -2.0}, ys = {0.0, 0.4, -3.0};   /* 2.5, -2.0: cos(pitch) < 0, still far from gimbal lock */ if (g_th) { rs.push_back(3.0); rs.push_back(-0.4); ps.push_back(-0.6); ps.push_back(1.0); ps.push_back(-1.45); ys.push_back(2.2); ys.push_back(5.5); } for (double r : rs) for (double p : ps) for (double y : ys) v.push_back({r, p, y}); return v; }

Eigen::Matrix<double, 6, 1> out6(const Pose3D& p) { Eigen::Matrix<double, 6, 1> o; o << p.position, p.orientation; return o; }

void pose_cov(vf::Ctx& c, size_t it) {
  auto Ts = transforms(); auto covs = cov_catalogue(); auto atts = attitudes();
  const Eigen::Affine3d& T = Ts[it];
  std::vector<V3> poss = {{0, 0, 0}, {1, -2, 0.5}, {100, 50, -3}};
  for (size_t ia = 0; ia < atts.size(); ++ia) for (size_t ip = 0; ip < poss.size(); ++ip) {
    Pose3D p; p.position = poss[ip]; p.orientation = atts[ia]; p.covariance.setZero();
    Pose3D r0 = T * p;
    double pit = betweenMinusPiAndPi(r0.orientation[1]);
    if (std::fabs(pit) > M_PI / 2 - 0.05 || std::fabs(std::cos(atts[ia][1])) < 0.05) { c.trivial(); continue; }   // gimbal lock before or after the transformation
    // Jacobian of the library's own map by Richardson-extrapolated central differences
    M6 J;
    for (int k = 0; k < 6; ++k) {
      auto cd = [&](double h) {
        Pose3D a = p, b = p; if (k < 3) { a.position[k] += h; b.position[k] -= h; } else { a.orientation[k - 3] += h; b.orientation[k - 3] -= h; }
        Eigen::Matrix<double, 6, 1> d = out6(T * a) - out6(T * b);
        for (int i = 3; i < 6; ++i) d[i] = std::remainder(d[i], 2 * M_PI);
        return (d / (2 * h)).eval();
      };
      double h = 1e-4; J.col(k) = (4 * cd(h / 2) - cd(h)) / 3;
    }
    for (size_t ic = 0; ic < covs.size(); ++ic) {
      p.covariance = covs[ic];
      Pose3D r = T * p;
      M6 want = J * covs[ic] * J.transpose();
      c.eval(); c.nontrivial();
      for (int i = 0; i < 36; ++i) c.obs(r.covariance(i / 6, i % 6));
      double scale = std::max(want.norm(), 1e-12);
      double err = (r.covariance - want).norm() / scale;
      std::string params = vf::JO().u("transform", it).vec("pose_rpy", std::vector<double>{atts[ia][0], atts[ia][1], atts[ia][2]}).vec("pose_xyz", std::vector<double>{poss[ip][0], poss[ip][1], poss[ip][2]}).u("covariance", ic).done();
      c.note_max("pose_cov_rel_err", err);
      if (!(err <= 1e-8)) c.violation("Pose3D.transform.covariance", params, vf::JO().num("rel_err", err).done());
      double asym = (r.covariance - r.covariance.transpose()).norm() / scale;
      Eigen::SelfAdjointEigenSolver<M6> es((r.covariance + r.covariance.transpose()) / 2);
      if (asym > 1e-12 || es.eigenvalues().minCoeff() < -1e-9 * scale) c.violation("Pose3D.transform.covariance.notSymmetricPSD", params, vf::JO().num("asymmetry", asym).num("min_eig", es.eigenvalues().minCoeff()).done());
      if (c.want_sample()) c.sample(params);
    }
  }
}

// ---- C: least-squares covariance ---------------------------------------------------------------------------------
template <class S> void ls_cov(vf::Ctx& c, const char* tname) {
  using Mat = Eigen::Matrix<S, Eigen::Dynamic, Eigen::Dynamic>; using Vec = Eigen::Matrix<S, Eigen::Dynamic, 1>;
  using LM = Eigen::Matrix<long double, Eigen::Dynamic, Eigen::Dynamic>;
  std::vector<S> scales = std::is_same<S, double>::value ? std::vector<S>{(S)1, (S)(1.0 / 131072), (S)1024} : std::vector<S>{(S)1, (S)(1.0 / 64), (S)64};
  for (S jscale : scales) for (int p = 1; p <= 6; ++p) for (int n : {p, p + 3, 40, 64, 255, 256, 1024, 2048}) for (int solver = 0; solver < 2; ++solver) for (int prec = 0; prec < 3; ++prec) {
    // two problems in a row on one solver object: the covariance must belong to the last one solved
    LeastSquares<S> ls(p);
    Mat Jk; Vec diag(p);
    for (int round = 0; round < 2; ++round) {
      ls.setDataSize(n);
      Jk = Mat(n, p);
      for (int i = 0; i < n; ++i) for (int j = 0; j < p; ++j) Jk(i, j) = jscale * (S)(std::cos(0.7 * (i + 1) * (j + 1) + round) + (i == j ? 2.0 : 0.0) + 0.1 * round * j);
      ls.getJ().topRows(n) = Jk;
      for (int i = 0; i < n; ++i) ls.getY()(i) = (S)(std::sin(1.3 * i + round));
      for (int j = 0; j < p; ++j) diag(j) = prec == 0 ? (S)1 : prec == 1 ? (S)(0.5 + j) : (S)(j % 2 ? 1e-3 : 1e3);
      Mat A = diag.asDiagonal();
      if (prec) ls.setPreconditionner(A, Vec::Constant(p, (S)0.25));
      if (solver == 0) ls.estimateUsingCholeskyDecomposition(); else ls.estimateUsingSVD();
    }
    S var = (S)0.04;
    Mat cov = ls.computeEstimateCovariance(var);
    LM Jl = Jk.template cast<long double>();
    LM inv = (Jl.transpose() * Jl).fullPivLu().inverse();
    LM Al = LM(diag.template cast<long double>().asDiagonal());
    LM want = Al * inv * Al.transpose() * (long double)var;
    Eigen::JacobiSVD<LM> svd(Jl); long double kappa = svd.singularValues()(0) / svd.singularValues()(p - 1);
    long double eps = std::numeric_limits<S>::epsilon();
    long double tol = 16 * eps * kappa * kappa + 1e-300L;
    long double err = (cov.template cast<long double>() - want).norm() / want.norm();
    c.eval(); c.nontrivial();
    for (int i = 0; i < p * p; ++i) c.obs((double)cov(i / p, i % p));
    c.note_max(std::string("ls_cov_err_over_tol_") + tname, (double)(err / tol));
    std::string params = vf::JO().str("type", tname).num("design_matrix_scale", jscale).i("estimate_size", p).i("data_size", n).str("solver", solver ? "SVD" : "Cholesky").i("preconditioner", prec).num("kappa_J", kappa).done();
    if (kappa * kappa * eps > 1e-2L) { c.trivial(); continue; }
    if (!(err <= tol)) c.violation("LeastSquares.computeEstimateCovariance", params, vf::JO().num("rel_err", err).num("tol", tol).done());
    // the covariance is a query on the solved problem: asked again (after a query with another data variance) it is the same matrix,
    // and the estimate read afterwards is still the one of that problem
    Mat covOther = ls.computeEstimateCovariance((S)1);
    Mat cov2 = ls.computeEstimateCovariance(var);
    long double err1 = (covOther.template cast<long double>() * (long double)var - want).norm() / want.norm();
    long double err2 = (cov2.template cast<long double>() - want).norm() / want.norm();
    for (int i = 0; i < p * p; ++i) c.obs((double)cov2(i / p, i % p));
    if (!(err1 <= tol) || !(err2 <= tol)) c.violation("LeastSquares.computeEstimateCovariance.dependsOnHistory", params, vf::JO().num("rel_err_second_query_other_variance", err1).num("rel_err_third_query", err2).num("tol", tol).done());
    if (c.want_sample()) c.sample(params);
  }
  // large problems on a solver that has solved a larger one before (buffers longer than the data): n1 rows, then n2 < n1 rows, covariance of the second
  for (auto sz : std::vector<std::pair<int, int>>{{6000, 5000}, {9000, 4097}, {8192, 4096}, {5000, 4100}, {2048, 1025}, {9000, 7000}, {14000, 11500}, {40000, 33000}}) for (int p : {3, 6}) for (int solver = 0; solver < 2; ++solver) for (int prec = 0; prec < 2; ++prec) {
    LeastSquares<S> ls(p); Mat Jk; Vec diag(p);
    for (int round = 0; round < 2; ++round) {
      int n = round ? sz.second : sz.first;
      ls.setDataSize(n); Jk = Mat(n, p);
      for (int i = 0; i < n; ++i) for (int j = 0; j < p; ++j) Jk(i, j) = (S)(std::cos(0.7 * (i % 97 + 1) * (j + 1) + round + 0.013 * i) + (i % p == j ? 2.0 : 0.0));
      ls.getJ().topRows(n) = Jk; for (int i = 0; i < n; ++i) ls.getY()(i) = (S)(std::sin(1.3 * i + round));
      for (int j = 0; j < p; ++j) diag(j) = prec == 0 ? (S)1 : (S)(0.5 + j);
      Mat A = diag.asDiagonal(); if (prec) ls.setPreconditionner(A, Vec::Constant(p, (S)0.25));
      if (solver == 0) ls.estimateUsingCholeskyDecomposition(); else ls.estimateUsingSVD();
    }
    S var = (S)0.04; Mat cov = ls.computeEstimateCovariance(var);
    LM Jl = Jk.template cast<long double>(); LM inv = (Jl.transpose() * Jl).fullPivLu().inverse(); LM Al = LM(diag.template cast<long double>().asDiagonal());
    LM want = Al * inv * Al.transpose() * (long double)var;
    Eigen::JacobiSVD<LM> svd(Jl); long double kappa = svd.singularValues()(0) / svd.singularValues()(p - 1), eps = std::numeric_limits<S>::epsilon();
    long double tol = 16 * eps * kappa * kappa * std::sqrt((long double)sz.second / 40) + 1e-300L, err = (cov.template cast<long double>() - want).norm() / want.norm();
    c.eval(); c.nontrivial();
    c.note_max(std::string("ls_cov_large_err_over_tol_") + tname, (double)(err / tol));
    if (!(err <= tol)) c.violation("LeastSquares.computeEstimateCovariance", vf::JO().str("type", tname).i("estimate_size", p).i("first_data_size", sz.first).i("data_size", sz.second).str("solver", solver ? "SVD" : "Cholesky").i("preconditioner", prec).done(), vf::JO().num("rel_err", err).num("tol", tol).done());
  }
}

}  // namespace

uint64_t vf_ncases(const std::string& tier) { g_th = tier == "thorough"; return rollyaw().size() + transforms().size() + 2 + 45 + 1; }

void vf_run(uint64_t idx, const std::string& tier, vf::Ctx& c) {
  g_th = tier == "thorough";
  size_t nr = rollyaw().size(), nt = transforms().size();
  if (idx < nr) derivatives(c, rollyaw()[idx]);
  else if (idx < nr + nt) pose_cov(c, idx - nr);
  else if (idx == nr + nt) ls_cov<double>(c, "double");
  else if (idx == nr + nt + 1) ls_cov<float>(c, "float");
  else if (idx < nr + nt + 2 + 45) { int k = (int)(idx - nr - nt - 2); derivative_sequences(c, g_th ? 7 : 4, k / 15, k % 15); }
  else many_inits(c);
}

std::string vf_describe(const std::string& tier) {
  g_th = tier == "thorough";
  vf::JO o;
  o.vec("roll_yaw", rollyaw()).vec("pitch", pitches());
  o.str("finite_differences", "central differences with Richardson extrapolation (h=1e-4, 5e-5) of the library's own R() and operator*(Affine3d,Pose3D); tolerance 1e-9 absolute (rotation derivatives), 1e-8 relative (covariances)");
  o.str("derivative_sequences", std::string("one SmartRotation3D (default-constructed / constructed from a vector / from three scalars) through every sequence of ") + (g_th ? "7" : "4") + " operations out of 15 (init with 6 angle triples in both overloads, read of all derivative matrices, assignment to another long-lived object, moved-in copy) followed by a read; every read bit-equal to a fresh object at the current angles");
  o.str("many_inits", "one object re-initialised N times between two reads of the derivative matrices for every N in 1..600 and {1023,1024,1025,4096,65535,65536,65537}, with and without a first read; bit-equal to a fresh object");
  o.str("transform_catalogue", "identity, yaw, roll, pitch, two generic axes, the 24 rotations of the cube, a yaw composed with a tilt of {1e-9,1e-6,3e-4,8e-4,1e-2} rad, rotations of 1e-7 and 2e-4 rad about a generic axis; each with and without translation");
  o.u("transforms", transforms().size()).u("attitudes", attitudes().size()).u("covariances", cov_catalogue().size());
  o.str("least_squares", "estimate size 1..6, data size {p,p+3,40,64,255,256,1024,2048}, Cholesky and SVD, preconditioner {none, diag(0.5+j)+offset, diag(1e3/1e-3)+offset}, second problem on a reused solver; large shrinking pairs (6000 then 5000 rows, 9000/4097, 8192/4096, 5000/4100, 2048/1025, 9000/7000, 14000/11500, 40000/33000); design matrix magnitude {1, 2^-17, 2^10} (float {1, 2^-6, 2^6}); float and double; tolerance 16 eps kappa(J)^2");
  return o.done();
}

VF_MAIN()
