// C10 -- Euler angles / rotation matrices / quaternions / SmartRotation3D / angle normalisers / polar & spherical coordinates
// are mutually consistent.  Bounded-exhaustive lattice; SmartRotation3D additionally through init() sequences on one object.
#include <romea_core_common/math/EulerAngles.hpp>
#include <romea_core_common/math/Transformation.hpp>
#include <romea_core_common/transform/SmartRotation3D.hpp>
#include <romea_core_common/coordinates/PolarCoordinates.hpp>
#include <romea_core_common/coordinates/SphericalCoordinates.hpp>
#include "vrun.hpp"

const char* kProperty = "C10";
using namespace romea::core;

namespace {

const long double PI = 3.14159265358979323846264338327950288L;
long double angdiff(long double a, long double b) { return fabsl(remainderl(a - b, 2 * PI)); }
template <class S> S ulp(S x) { x = std::fabs(x); return std::nextafter(x, std::numeric_limits<S>::infinity()) - x; }

std::vector<double> rollyaw(bool th) {
  std::vector<double> v = {0, 1e-9, -1e-9, 0.3, -0.3, 1.0, -1.0, M_PI / 2, -M_PI / 2, 2.0, -2.0, 3.0, -3.0, M_PI, -M_PI, 3.5, -3.5, 3 * M_PI / 2, -3 * M_PI / 2,
                           5.5, -5.5, 2 * M_PI - 1e-9, -(2 * M_PI - 1e-9), 6.0, -6.0};
  if (th) for (int k = -25; k <= 25; ++k) v.push_back(k * 0.247 + 0.011);
  std::sort(v.begin(), v.end()); v.erase(std::unique(v.begin(), v.end()), v.end());
  return v;
}
std::vector<double> pitches(bool th) {
  std::vector<double> v = {0, 1e-9, -1e-9, 0.2, -0.2, 0.7, -0.7, 1.2, -1.2, 1.5, -1.5, M_PI / 2 - 1e-3, -(M_PI / 2 - 1e-3), M_PI / 2 - 2e-3, -(M_PI / 2 - 4e-3), M_PI / 2 - 0.01};
  if (th) for (int k = -15; k <= 15; ++k) v.push_back(k * 0.1 + 0.003);
  std::sort(v.begin(), v.end()); v.erase(std::unique(v.begin(), v.end()), v.end());
  return v;
}

template <class S> long double tol_angle(long double pitch) {
  long double c = cosl(pitch);
  if (std::is_same<S, double>::value) return std::min<long double>(1e-9L, 1e-12L + 4e-15L / c);
  return 2e-5L + 2e-6L / c;
}

template <class S> bool proper(const Eigen::Matrix<S, 3, 3>& R, long double tol) {
  Eigen::Matrix<long double, 3, 3> L = R.template cast<long double>();
  return ((L.transpose() * L) - Eigen::Matrix<long double, 3, 3>::Identity()).norm() <= tol && fabsl(L.determinant() - 1) <= tol;
}

// reference Rz*Ry*Rx in long double from the definition
Eigen::Matrix<long double, 3, 3> refR(long double r, long double p, long double y) {
  Eigen::Matrix<long double, 3, 3> Rx, Ry, Rz;
  Rx << 1, 0, 0, 0, cosl(r), -sinl(r), 0, sinl(r), cosl(r);
  Ry << cosl(p), 0, sinl(p), 0, 1, 0, -sinl(p), 0, cosl(p);
  Rz << cosl(y), -sinl(y), 0, sinl(y), cosl(y), 0, 0, 0, 1;
  return Rz * Ry * Rx;
}

template <class S> void triples(vf::Ctx& c, const char* tname, double roll, bool th) {
  using V3 = Eigen::Matrix<S, 3, 1>; using M3 = Eigen::Matrix<S, 3, 3>;
  long double eps = std::numeric_limits<S>::epsilon();
  for (double pitch : pitches(th)) for (double yaw : rollyaw(th)) {
    V3 a((S)roll, (S)pitch, (S)yaw);
    long double r = a[0], p = a[1], y = a[2];
    auto params = [&]() { return vf::JO().str("type", tname).num("roll", r).num("pitch", p).num("yaw", y).done(); };
    long double tol = tol_angle<S>(p);
    c.eval(); if (fabsl(p) > 1.5 || fabsl(r) > PI || fabsl(y) > PI) c.nontrivial();
    M3 R = eulerAnglesToRotation3D<S>(a);
    for (int i = 0; i < 9; ++i) c.obs((double)R(i / 3, i % 3));
    // same rotation as the definition Rz*Ry*Rx
    if ((R.template cast<long double>() - refR(r, p, y)).norm() > 16 * eps) c.violation("eulerAnglesToRotation3D.vsDefinition", params(), vf::JO().num("err", (R.template cast<long double>() - refR(r, p, y)).norm()).done());
    if (!proper<S>(R, 32 * eps)) c.violation("eulerAnglesToRotation3D.notProper", params(), "{}");
    V3 b = rotation3DToEulerAngles<S>(R);
    for (int i = 0; i < 3; ++i) {
      c.obs((double)b[i]);
      if (!(b[i] >= 0 && (long double)b[i] <= 2 * PI + 4 * eps) || angdiff(b[i], a[i]) > tol)
        c.violation("rotation3DToEulerAngles.roundTrip", params(), vf::JO().i("component", i).num("got", b[i]).num("want_mod_2pi", a[i]).num("tol", tol).done());
    }
    c.note_max(std::string("angle_err_over_tol_") + tname, (double)(std::max({angdiff(b[0], a[0]), angdiff(b[1], a[1]), angdiff(b[2], a[2])}) / tol));
    // quaternion path, any norm / sign
    Eigen::Quaternion<S> q = eulerAnglesToQuaternion<S>(a);
    for (S scale : {(S)1, (S)1e-3, (S)-1e3, (S)-1, (S)(1 + 4.5e-13), (S)(1 - 4.5e-13), (S)(1 + 1e-10), (S)(1 - 1e-8), (S)(1 + 4e-6), (S)(1 - 4e-6), (S)(1 + 1e-4), (S)(-1 - 3e-6)}) {   // incl. nearly-unit norms at graded distances from 1
      Eigen::Quaternion<S> qs(q.w() * scale, q.x() * scale, q.y() * scale, q.z() * scale);
      V3 d = quaternionToEulerAngles<S>(qs);
      for (int i = 0; i < 3; ++i) if (angdiff(d[i], a[i]) > tol) { c.violation("quaternionToEulerAngles.roundTrip", params(), vf::JO().i("component", i).num("scale", scale).num("got", d[i]).done()); break; }
    }
    // R -> angles -> R
    M3 R2 = eulerAnglesToRotation3D<S>(b);
    long double lim = std::is_same<S, double>::value ? 1e-9L : 2e-3L;
    if ((R2 - R).template cast<long double>().norm() > lim) c.violation("rotation3D.anglesAndBack", params(), vf::JO().num("err", (R2 - R).template cast<long double>().norm()).done());
    if constexpr (std::is_same<S, double>::value) {
      SmartRotation3D sr(roll, pitch, yaw);
      if ((sr.R() - R).norm() > 8 * eps || !proper<double>(sr.R(), 32 * eps)) c.violation("SmartRotation3D.R.vsEulerAnglesToRotation3D", params(), vf::JO().num("err", (sr.R() - R).norm()).done());
      Eigen::Vector3d t(0.3, -1.2, 2.0);
      if (((sr * t) - R * t).norm() > 32 * eps) c.violation("SmartRotation3D.operator*", params(), "{}");
      SmartRotation3D sv(Eigen::Vector3d(roll, pitch, yaw));
      if (sv.R() != sr.R()) c.violation("SmartRotation3D.vectorCtor", params(), "{}");
      auto T = rigid_transformation3<double>(Eigen::Vector3d(1, 2, 3), a.template cast<double>());
      if (!proper<double>(T.linear(), 32 * eps)) c.violation("rigid_transformation3.linearNotProper", params(), "{}");
    }
    if (c.want_sample()) c.sample(params());
  }
}

// rotation matrices from an axis-angle lattice, |R(2,0)| <= 1-1e-6
template <class S> void matrices(vf::Ctx& c, const char* tname, bool th) {
  using V3 = Eigen::Matrix<S, 3, 1>; using M3 = Eigen::Matrix<S, 3, 3>;
  std::vector<V3> axes = {V3(1, 0, 0), V3(0, 1, 0), V3(0, 0, 1), V3(1, 1, 0), V3(1, -1, 1), V3(-2, 1, 3), V3(0.1f, 0.2f, -1), V3(1, 1e-3f, 0)};
  std::vector<double> ang = {0, 1e-7, 0.1, 0.5, 1.0, M_PI / 2, 2.0, 3.0, M_PI - 1e-6, M_PI, -0.4, -1.5707, -3.1};
  if (th) for (int k = 1; k < 60; ++k) ang.push_back(k * 0.1049);
  for (auto ax : axes) for (double an : ang) {
    M3 R = Eigen::AngleAxis<S>((S)an, ax.normalized()).toRotationMatrix();
    if (std::fabs((double)R(2, 0)) > 1 - 1e-6) { c.trivial(); continue; }
    c.eval(); c.nontrivial();
    V3 a = rotation3DToEulerAngles<S>(R);
    M3 R2 = eulerAnglesToRotation3D<S>(a);
    long double err = (R2 - R).template cast<long double>().norm();
    long double lim = std::is_same<S, double>::value ? 1e-9L : 2e-3L;
    c.obs((double)a[0]); c.obs((double)a[1]); c.obs((double)a[2]);
    if (!(err <= lim)) c.violation("rotation3DToEulerAngles.matrixRoundTrip", vf::JO().str("type", tname).vec("axis", std::vector<double>{(double)ax[0], (double)ax[1], (double)ax[2]}).num("angle", an).done(), vf::JO().num("err", err).done());
  }
}

template <class S> void normalisers(vf::Ctx& c, const char* tname, bool th) {
  std::vector<S> in;
  for (int k = -7; k <= 7; ++k) { S b = (S)(k * M_PI / 2); in.push_back(b); in.push_back(std::nextafter(b, (S)100)); in.push_back(std::nextafter(b, (S)-100)); in.push_back(b + (S)1e-12); in.push_back(b - (S)1e-12); in.push_back(b + (S)1e-5); in.push_back(b - (S)1e-5); }
  int n = th ? 20000 : 2000;
  for (int i = 1; i < n; ++i) in.push_back((S)(-4 * M_PI + 8 * M_PI * i / n));
  in.push_back(std::nextafter((S)(4 * M_PI), (S)0)); in.push_back(std::nextafter((S)(-4 * M_PI), (S)0)); in.push_back((S)12.56); in.push_back((S)-12.56);
  long double tol = 4 * (long double)ulp<S>((S)(2 * M_PI));
  for (S v : in) {
    if (!(v > -4 * M_PI && v < 4 * M_PI)) continue;
    c.eval(); if (std::fabs(v) > M_PI) c.nontrivial();
    S a = between0And2Pi<S>(v), b = betweenMinusPiAndPi<S>(v);
    c.obs((double)a); c.obs((double)b);
    std::string params = vf::JO().str("type", tname).num("input", v).done();
    if (!(a >= 0 && (long double)a <= 2 * PI + tol) || angdiff(a, v) > tol) c.violation("between0And2Pi", params, vf::JO().num("got", a).done());
    if (!((long double)b >= -PI - tol && (long double)b <= PI + tol) || angdiff(b, v) > tol) c.violation("betweenMinusPiAndPi", params, vf::JO().num("got", b).done());
    // planar pair
    Eigen::Matrix<S, 2, 2> R = eulerAngleToRotation2D<S>(v);
    S back = rotation2DToEulerAngle<S>(R);
    long double t2 = std::is_same<S, double>::value ? 1e-12L : 2e-6L;
    if (!(back >= 0 && (long double)back <= 2 * PI + tol) || angdiff(back, v) > t2) c.violation("rotation2DToEulerAngle.roundTrip", params, vf::JO().num("got", back).done());
    Eigen::Matrix<long double, 2, 2> L = R.template cast<long double>();
    if (((L.transpose() * L) - Eigen::Matrix<long double, 2, 2>::Identity()).norm() > 8 * (long double)std::numeric_limits<S>::epsilon() || fabsl(L.determinant() - 1) > 8 * (long double)std::numeric_limits<S>::epsilon())
      c.violation("eulerAngleToRotation2D.notProper", params, "{}");
    if (c.want_sample()) c.sample(params);
  }
}

// SmartRotation3D re-initialised on one object: every sequence of init() calls must give what a fresh object gives
void smart_sequences(vf::Ctx& c, int depth) {
  std::vector<Eigen::Vector3d> A = {{0, 0, 0}, {0.4, 0, 0}, {0, 0.3, 0}, {0, 0, 1.1}, {0, 0, -2.0}, {0.7, -0.5, 2.2}, {-3.0, 1.2, 6.0}, {1e-9, 0, 0.5}};
  uint64_t total = 1; for (int i = 0; i < depth; ++i) total *= A.size();
  std::set<uint64_t> states;
  for (uint64_t k = 0; k < total; ++k) {
    std::vector<int> seq(depth); uint64_t r = k; for (int i = 0; i < depth; ++i) { seq[i] = r % A.size(); r /= A.size(); }
    SmartRotation3D obj;
    for (int i = 0; i < depth; ++i) {
      const auto& a = A[seq[i]];
      if (i % 2) obj.init(a); else obj.init(a[0], a[1], a[2]);
      SmartRotation3D fresh(a[0], a[1], a[2]);
      c.transitions(); c.eval(); if (i) c.nontrivial();
      bool same = obj.R() == fresh.R() && obj.dRdAngleAroundXAxis() == fresh.dRdAngleAroundXAxis() && obj.dRdAngleAroundYAxis() == fresh.dRdAngleAroundYAxis() && obj.dRdAngleAroundZAxis() == fresh.dRdAngleAroundZAxis();
      Eigen::Matrix3d ref = eulerAnglesToRotation3D<double>(a);
      uint64_t h = 1; for (int j = 0; j < 9; ++j) { double v = obj.R()(j / 3, j % 3); c.obs(v); uint64_t u; memcpy(&u, &v, 8); h = vf::mix64(h, u); }
      states.insert(h);
      if (!same || (obj.R() - ref).norm() > 1e-14) {
        std::vector<std::string> hs; for (int j = 0; j <= i; ++j) { char b[96]; snprintf(b, 96, "init(%g,%g,%g)", A[seq[j]][0], A[seq[j]][1], A[seq[j]][2]); hs.push_back(b); }
        c.violation("SmartRotation3D.init.dependsOnHistory", vf::JO().strs("history", hs).done(), vf::JO().num("R_err_vs_euler", (obj.R() - ref).norm()).b("equals_fresh", same).done());
        break;
      }
    }
    c.traces();
  }
  c.states(states.size());
}

template <class S> void coords(vf::Ctx& c, const char* tname, bool th) {
  long double eps = std::numeric_limits<S>::epsilon();
  long double tol = 4 * sqrtl(eps);   // acos-based elevation: error up to sqrt(2 eps) near the poles, relative to the norm
  int naz = th ? 96 : 24;
  std::vector<long double> elev; for (int k = 0; k <= 12; ++k) elev.push_back(PI * k / 12); elev.push_back(1e-3); elev.push_back(1e-6); elev.push_back(PI - 1e-3); elev.push_back(PI - 1e-6);
  // long-lived objects that receive every result by copy-assignment / move-assignment (a result is usually stored that way)
  PolarCoordinates<S> keepP((S)7, (S)0.5), keepP2((S)9, (S)-0.5); SphericalCoordinates<S> keepS((S)7, (S)0.5, (S)1.0), keepS2((S)9, (S)-0.5, (S)2.0);
  std::vector<PolarCoordinates<S>> vecP(2, PolarCoordinates<S>((S)1, (S)1)); std::vector<SphericalCoordinates<S>> vecS(2, SphericalCoordinates<S>((S)1, (S)1, (S)1));
  for (long double rr : {1e-6L, 1e-3L, 1.0L, 1e3L, 1e6L}) for (int ia = 0; ia < naz; ++ia) {
    long double az = -PI + 2 * PI * (ia + 0.5L) / naz; if (ia % 6 == 0) az = -PI + 2 * PI * ia / naz;   // include exact multiples of pi/2 and -pi
    // polar
    {
      CartesianCoordinates2<S> p((S)(rr * cosl(az)), (S)(rr * sinl(az)));
      auto pol = toPolar(p); auto back = toCartesian(pol); auto backh = toHomogeneous(pol);
      HomogeneousCoordinates2<S> ph(p[0], p[1]); auto polh = toHomogeneous(ph);
      c.eval(); c.nontrivial();
      std::string params = vf::JO().str("type", tname).num("range", rr).num("azimuth", az).done();
      long double n = p.template cast<long double>().norm();
      c.obs((double)pol.getRange()); c.obs((double)pol.getAzimut());
      if ((back - p).template cast<long double>().norm() > 8 * eps * n || fabsl((long double)pol.getRange() - n) > 4 * eps * n || fabsl(backh[0] - back[0]) > 0 || backh[2] != 1 || polh.getRange() != pol.getRange() || polh.getAzimut() != pol.getAzimut())
        c.violation("polar.roundTrip", params, vf::JO().num("err_rel", (back - p).template cast<long double>().norm() / n).done());
      {
        keepP = pol; keepP2 = toPolar(p); PolarCoordinates<S> cp(pol); vecP[0] = pol; PolarCoordinates<S> inVec = vecP[0]; vecP.push_back(pol); vecP.erase(vecP.begin());   // erase shifts the elements by assignment
        auto same = [&](const PolarCoordinates<S>& a) { return a.getRange() == pol.getRange() && a.getAzimut() == pol.getAzimut(); };
        if (!same(keepP) || !same(keepP2) || !same(cp) || !same(inVec) || !same(vecP.back()) || (toCartesian(keepP) - back).norm() != 0)
          c.violation("polar.valueSemantics", params, vf::JO().num("assigned_range", keepP.getRange()).num("assigned_azimuth", keepP.getAzimut()).num("move_assigned_range", keepP2.getRange()).num("copy_range", cp.getRange()).num("range", pol.getRange()).num("azimuth_value", pol.getAzimut()).done());
      }
      PolarCoordinates<S> s((S)rr, (S)az); auto cart = toCartesian(s); auto s2 = toPolar(cart);
      if (fabsl((long double)s2.getRange() - s.getRange()) > 8 * eps * rr || angdiff(s2.getAzimut(), s.getAzimut()) > 8 * eps * 4) c.violation("polar.roundTrip.fromPolar", params, vf::JO().num("range", s2.getRange()).num("azimuth", s2.getAzimut()).done());
    }
    for (long double el : elev) {
      CartesianCoordinates3<S> p((S)(rr * cosl(az) * sinl(el)), (S)(rr * sinl(az) * sinl(el)), (S)(rr * cosl(el)));
      long double n = p.template cast<long double>().norm();
      auto sp = toSpherical(p); auto back = toCartesian(sp); auto backh = toHomogeneous(sp);
      HomogeneousCoordinates3<S> ph(p[0], p[1], p[2]); auto sph = toSpherical(ph);
      c.eval(); c.nontrivial();
      std::string params = vf::JO().str("type", tname).num("range", rr).num("azimuth", az).num("elevation", el).done();
      long double err = (back - p).template cast<long double>().norm() / n;
      { long double th = std::min(el, PI - el); tol = 8 * eps * (1 + 1 / std::max(th, sqrtl(eps))); }   // acos conditioning: eps/theta, at most sqrt(eps)
      c.obs((double)sp.getRange()); c.obs((double)sp.getElevation());
      c.note_max(std::string("spherical_err_over_tol_") + tname, (double)(err / tol));
      if (!(err <= tol) || fabsl((long double)sp.getRange() - n) > 4 * eps * n || backh[0] != back[0] || backh[1] != back[1] || backh[2] != back[2] || backh[3] != 1 || sph.getRange() != sp.getRange() || sph.getElevation() != sp.getElevation() || sph.getAzimut() != sp.getAzimut())
        c.violation("spherical.roundTrip", params, vf::JO().num("err_rel", err).num("tol", tol).done());
      {
        keepS = sp; keepS2 = toSpherical(p); SphericalCoordinates<S> cp(sp); vecS[0] = sp; SphericalCoordinates<S> inVec = vecS[0]; vecS.push_back(sp); vecS.erase(vecS.begin());
        auto same = [&](const SphericalCoordinates<S>& a) { return a.getRange() == sp.getRange() && a.getAzimut() == sp.getAzimut() && a.getElevation() == sp.getElevation(); };
        if (!same(keepS) || !same(keepS2) || !same(cp) || !same(vecS.back()) || !same(inVec) || (toCartesian(keepS) - back).norm() != 0)
          c.violation("spherical.valueSemantics", params, vf::JO().num("assigned_range", keepS.getRange()).num("assigned_azimuth", keepS.getAzimut()).num("assigned_elevation", keepS.getElevation()).num("move_assigned_range", keepS2.getRange()).num("copy_range", cp.getRange()).num("range", sp.getRange()).num("azimuth_value", sp.getAzimut()).num("elevation_value", sp.getElevation()).done());
      }
      SphericalCoordinates<S> s((S)rr, (S)az, (S)el); auto cart = toCartesian(s); auto s2 = toSpherical(cart);
      bool pole = sinl(el) < 1e-2L;
      if (fabsl((long double)s2.getRange() - s.getRange()) > 8 * eps * rr || fabsl((long double)s2.getElevation() - s.getElevation()) > tol || (!pole && angdiff(s2.getAzimut(), s.getAzimut()) > 64 * eps / sinl(el)))
        c.violation("spherical.roundTrip.fromSpherical", params, vf::JO().num("range", s2.getRange()).num("azimuth", s2.getAzimut()).num("elevation", s2.getElevation()).done());
    }
  }
}


// SmartRotation3D re-initialised many times with angles a graded tiny step apart (down to below the machine epsilon): R() must stay that of the current angles
void smart_trajectory(vf::Ctx& c, bool th) {
  const double steps[] = {1e-19, 1e-17, 1e-16, 3e-16, 1e-13, 1e-9, 1e-6};
  const Eigen::Vector3d starts[] = {{1e-3, -2e-3, 3e-3}, {0.7, -0.5, 2.2}, {0, 0, 0}, {3.0, 1.2, -6.0}};
  int len = th ? 20000 : 1500;
  for (auto& st : starts) for (double s : steps) for (int pat = 0; pat < 2; ++pat) {
    SmartRotation3D obj(st);
    for (int i = 1; i <= len; ++i) {
      double f = pat == 0 ? (double)i : (double)((i % 2) ? (i + 1) / 2 : -(i / 2));
      Eigen::Vector3d a(st[0] + f * s, st[1] - f * s, st[2] + 2 * f * s);
      if (i % 2) obj.init(a); else obj.init(a[0], a[1], a[2]);
      c.transitions();
      if (i % 16 && i != len) continue;   // compared every 16th step and at the end (the intermediate steps only re-initialise)
      c.eval(); c.nontrivial();
      SmartRotation3D fresh(a);
      if (!(obj.R() == fresh.R()) || !(obj.dRdAngleAroundZAxis() == fresh.dRdAngleAroundZAxis())) {
        c.violation("SmartRotation3D.init.dependsOnHistory", vf::JO().str("explorer", "trajectory").vec("start", std::vector<double>{st[0], st[1], st[2]}).num("step_rad", s).str("pattern", pat ? "back-and-forth" : "drift").i("inits", i).done(), vf::JO().num("R_diff_vs_fresh", (obj.R() - fresh.R()).norm()).done());
        break;
      }
    }
    c.traces();
  }
}

struct Case { int kind; int type; int idx; };
std::vector<Case> g_cases[2];
const std::vector<Case>& cases(bool th) {
  auto& v = g_cases[th];
  if (!v.empty()) return v;
  size_t nr = rollyaw(th).size();
  for (int t = 0; t < 2; ++t) for (size_t i = 0; i < nr; ++i) v.push_back({0, t, (int)i});
  for (int t = 0; t < 2; ++t) { v.push_back({1, t, 0}); v.push_back({2, t, 0}); v.push_back({4, t, 0}); }
  v.push_back({3, 0, th ? 7 : 4});
  v.push_back({3, 0, -1});   // init trajectories
  return v;
}

}  // namespace

uint64_t vf_ncases(const std::string& tier) { return cases(tier == "thorough").size(); }

void vf_run(uint64_t idx, const std::string& tier, vf::Ctx& c) {
  bool th = tier == "thorough";
  const Case& k = cases(th)[idx];
  switch (k.kind) {
    case 0: if (k.type == 0) triples<double>(c, "double", rollyaw(th)[k.idx], th); else triples<float>(c, "float", rollyaw(th)[k.idx], th); break;
    case 1: if (k.type == 0) matrices<double>(c, "double", th); else matrices<float>(c, "float", th); break;
    case 2: if (k.type == 0) normalisers<double>(c, "double", th); else normalisers<float>(c, "float", th); break;
    case 3: if (k.idx < 0) smart_trajectory(c, th); else smart_sequences(c, k.idx); break;
    case 4: if (k.type == 0) coords<double>(c, "double", th); else coords<float>(c, "float", th); break;
  }
}

std::string vf_describe(const std::string& tier) {
  bool th = tier == "thorough";
  vf::JO o;
  o.vec("roll_yaw", rollyaw(th)).vec("pitch", pitches(th));
  o.str("normaliser_inputs", "k*pi/2 +- {0, 1 ulp, 1e-12, 1e-5}, k=-7..7; lattice of 2000 (thorough 20000) in (-4pi,4pi); +-12.56; nextafter(+-4pi)");
  o.str("matrices", "axis-angle lattice 8 axes x 13 (thorough 72) angles, |R(2,0)|<=1-1e-6");
  o.str("smart_rotation_trajectories", std::string("one object re-initialised ") + (th ? "20000" : "1500") + " times with angles {1e-19,1e-17,1e-16,3e-16,1e-13,1e-9,1e-6} rad apart (drift and widening back-and-forth) from 4 starts, bit-equal to a fresh object every 16 steps");
  o.str("smart_rotation_sequences", th ? "all init() sequences of depth 7 over 8 angle triples" : "all init() sequences of depth 4 over 8 angle triples");
  o.str("coordinates", "r in {1e-6,1e-3,1,1e3,1e6} x 24 (thorough 96) azimuths incl. -pi and multiples of pi/2 x elevations k*pi/12, 1e-3, 1e-6, pi-1e-3, pi-1e-6; tolerance 8 eps (1 + 1/max(theta, sqrt(eps))) relative to the norm, theta = angular distance to the nearest pole (acos-based elevation)");
  o.str("angle_tolerance", "double: min(1e-9, 1e-12 + 4e-15/cos(pitch)); float: 2e-5 + 2e-6/cos(pitch)");
  return o.done();
}

VF_MAIN()
